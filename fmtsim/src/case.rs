//! One simulated run = one `Case`: a workload (builder history or a value of a
//! corpus type), the parties' scripts, the caller's spec and nesting context, and
//! the fault schedule. Everything is drawn from one `Rng`.

use crate::rng::Rng;
use crate::script::{Action, Script};
use crate::sink::SinkFault;
use serde::{Deserialize, Serialize};

#[derive(Clone, Copy, PartialEq, Eq, Debug, Serialize, Deserialize)]
pub enum Ctx {
    Bare,
    OptSome,
    Slice1,
    Slice2,
    Pair,
    StructField,
    MapValue,
}
pub const ALL_CTX: [Ctx; 7] = [
    Ctx::Bare,
    Ctx::OptSome,
    Ctx::Slice1,
    Ctx::Slice2,
    Ctx::Pair,
    Ctx::StructField,
    Ctx::MapValue,
];

/// Values handed to the constructors of corpus types (cursor-based, wrapping).
#[derive(Clone, PartialEq, Default, Serialize, Deserialize)]
pub struct Data {
    pub scripts: Vec<Script>,
    pub ints: Vec<i64>,
    pub floats: Vec<u64>,
    pub strings: Vec<String>,
    pub choices: Vec<u32>,
}

#[derive(Clone, PartialEq, Serialize, Deserialize)]
pub enum Layer {
    /// direct history on the builder API
    Builder {
        name: String,
        fields: Vec<Script>,
        non_exh: bool,
    },
    /// a value of corpus type `type_idx` (`type_name`/`type_src` are informational)
    Derived {
        corpus_seed: u64,
        type_idx: usize,
        type_name: String,
        type_src: String,
        data: Data,
    },
}

#[derive(Clone, PartialEq, Serialize, Deserialize)]
pub struct Case {
    pub layer: Layer,
    pub ctx: Ctx,
    pub spec_idx: usize,
    /// informational copy of the literal
    pub spec: String,
    pub w: usize,
    pub p: usize,
    pub sink: SinkFault,
    /// 0..=1000: where in the fault-free reference output the sink fault lands;
    /// resolved into `sink` by the runner before any side is judged
    pub sink_permille: u32,
    pub sink_kind: u8,
}

/// Per-run swarm configuration: which action kinds, faults and sizes are enabled.
#[derive(Clone, Debug)]
pub struct Mix {
    pub w: [u32; N_KINDS],
    pub max_depth: u32,
    pub max_actions: usize,
    pub newlines: bool,
    pub multibyte: bool,
    pub script_fail: bool,
    /// some parties keep writing after a failed step
    pub lenient: bool,
}

pub const N_KINDS: usize = 24;

const PIECES_PLAIN: &[&str] = &["a", "bc", "Z", " ", "_", "0", "{", "}", "\"", "\\", "(", ",", ")", ".."];
const PIECES_NL: &[&str] = &["\n", "\n", "x\ny", "\n\n", "end\n", "\nq", "    ", ",\n", "\r\n", "a\r\nb", "\u{2028}", "\u{85}", "\n\n\n", "\r"];
const PIECES_MB: &[&str] = &["é", "漢", "😀", "ß", "\u{301}", "\u{200b}", "\u{202e}", "e\u{301}\u{301}", "\u{fffd}"];
pub const NAMES: &[&str] = &["", "T", "Foo", "type", "Ünï", "a b", "X1", "_", "r#x"];
const FIELD_NAMES: &[&str] = &["a", "b", "type", "x_1", "ö", ""];

pub fn gen_text(r: &mut Rng, m: &Mix, max_pieces: usize) -> String {
    let n = r.below(max_pieces + 1);
    let mut s = String::new();
    for _ in 0..n {
        let k = r.below(10);
        let p = if m.newlines && k < 3 {
            *r.pick(PIECES_NL)
        } else if m.multibyte && k < 5 {
            *r.pick(PIECES_MB)
        } else {
            *r.pick(PIECES_PLAIN)
        };
        s.push_str(p);
    }
    s
}

fn gen_char(r: &mut Rng, m: &Mix) -> char {
    let k = r.below(10);
    if m.newlines && k < 3 {
        *r.pick(&['\n', '\n', '\n', '\r', '\u{2028}'])
    } else if m.multibyte && k < 5 {
        *r.pick(&['é', '漢', '😀', '\u{301}'])
    } else {
        *r.pick(&['a', ' ', '"', '\'', '\\', '\t', '\0', 'Z'])
    }
}

const INTS: &[i64] = &[0, 1, -1, 7, 10, 15, 16, 255, -255, 4096, i64::MAX, i64::MIN, 48879, -12345];
fn float_bits(r: &mut Rng) -> u64 {
    let t: [f64; 12] = [
        0.0, -0.0, 1.0, -1.5, 0.1, 1e300, 1e-7, f64::NAN, f64::INFINITY, f64::NEG_INFINITY, 123456.789, 2.5,
    ];
    r.pick(&t).to_bits()
}

pub fn gen_mix(r: &mut Rng) -> Mix {
    let mut w = [0u32; N_KINDS];
    // base weights; then a random subset of kinds is switched off (swarm)
    let base: [u32; N_KINDS] = [
        10, // 0 Str
        5,  // 1 Char
        3,  // 2 Fmt
        2,  // 3 Fmt2
        3,  // 4 Pad
        2,  // 5 PadIntegral
        4,  // 6 Int
        2,  // 7 UInt
        2,  // 8 Float
        2,  // 9 StrDbg
        1,  // 10 CharDbg
        1,  // 11 Bool
        1,  // 12 Unit
        3,  // 13 Echo
        2,  // 14 CoreStruct
        1,  // 15 CoreTuple
        2,  // 16 CoreList
        1,  // 17 CoreSet
        1,  // 18 CoreMap
        1,  // 19 OptSome
        1,  // 20 Pair
        4,  // 21 SutTuple
        2,  // 22 Bump
        1,  // 23 Arm
    ];
    for i in 0..N_KINDS {
        w[i] = if r.chance(3, 4) { base[i] } else { 0 };
    }
    if w.iter().all(|x| *x == 0) {
        w[0] = 1;
    }
    Mix {
        w,
        max_depth: r.below(4) as u32,
        max_actions: *r.pick(&[1usize, 2, 3, 5, 8, 12, 24]),
        newlines: r.chance(2, 3),
        multibyte: r.chance(1, 2),
        script_fail: r.chance(1, 4),
        lenient: r.chance(1, 4),
    }
}

pub fn gen_script(r: &mut Rng, m: &Mix, depth: u32, budget: &mut usize) -> Script {
    let n = if *budget == 0 { 0 } else { r.range(0, (*budget).min(6)) };
    let mut acts = Vec::with_capacity(n);
    for _ in 0..n {
        if *budget == 0 {
            break;
        }
        *budget -= 1;
        acts.push(gen_action(r, m, depth, budget));
    }
    if m.script_fail && r.chance(1, 6) {
        let at = r.below(acts.len() + 1);
        acts.insert(at, Action::Fail);
    }
    if m.lenient && r.chance(1, 3) {
        let at = r.below(acts.len() + 1);
        acts.insert(at, Action::Lenient(if r.chance(1, 2) { 1 } else { 2 }));
    }
    Script(acts)
}

fn gen_children(r: &mut Rng, m: &Mix, depth: u32, budget: &mut usize, max: usize) -> Vec<Script> {
    let n = r.below(max + 1);
    (0..n).map(|_| gen_script(r, m, depth + 1, budget)).collect()
}

fn gen_action(r: &mut Rng, m: &Mix, depth: u32, budget: &mut usize) -> Action {
    let mut w = m.w;
    if depth >= m.max_depth {
        for x in w.iter_mut().skip(14).take(8) {
            *x = 0;
        }
        if w.iter().all(|x| *x == 0) {
            w[0] = 1;
        }
    }
    match r.weighted(&w) {
        0 => Action::Str(gen_text(r, m, 4)),
        1 => Action::Char(gen_char(r, m)),
        2 => Action::Fmt(gen_text(r, m, 4)),
        3 => Action::Fmt2(gen_text(r, m, 3), gen_text(r, m, 3)),
        4 => Action::Pad(gen_text(r, m, 4)),
        5 => Action::PadIntegral(
            r.chance(1, 2),
            r.pick(&["", "0x", "0b", "#"]).to_string(),
            r.pick(&["0", "12", "ff", "00123"]).to_string(),
        ),
        6 => Action::Int(*r.pick(INTS)),
        7 => Action::UInt(*r.pick(INTS) as u64),
        8 => Action::Float(float_bits(r)),
        9 => Action::StrDbg(gen_text(r, m, 4)),
        10 => Action::CharDbg(gen_char(r, m)),
        11 => Action::Bool(r.chance(1, 2)),
        12 => Action::Unit,
        13 => Action::Echo,
        14 => {
            let kids = gen_children(r, m, depth, budget, 3);
            Action::CoreStruct {
                name: r.pick(NAMES).to_string(),
                fields: kids
                    .into_iter()
                    .map(|s| (r.pick(FIELD_NAMES).to_string(), s))
                    .collect(),
                non_exh: r.chance(1, 4),
            }
        }
        15 => Action::CoreTuple {
            name: r.pick(NAMES).to_string(),
            fields: gen_children(r, m, depth, budget, 3),
        },
        16 => Action::CoreList(gen_children(r, m, depth, budget, 3)),
        17 => Action::CoreSet(gen_children(r, m, depth, budget, 3)),
        18 => {
            let n = r.below(3);
            Action::CoreMap(
                (0..n)
                    .map(|_| {
                        (
                            gen_script(r, m, depth + 1, budget),
                            gen_script(r, m, depth + 1, budget),
                        )
                    })
                    .collect(),
            )
        }
        19 => Action::OptSome(Box::new(gen_script(r, m, depth + 1, budget))),
        20 => Action::Pair(
            Box::new(gen_script(r, m, depth + 1, budget)),
            Box::new(gen_script(r, m, depth + 1, budget)),
        ),
        21 => Action::SutTuple {
            name: r.pick(NAMES).to_string(),
            fields: gen_children(r, m, depth, budget, 4),
            non_exh: r.chance(1, 3),
        },
        22 => Action::Bump,
        _ => Action::Arm,
    }
}

pub fn gen_data(r: &mut Rng, m: &Mix) -> Data {
    let ns = r.range(1, 6);
    let mut budget = m.max_actions;
    let mut scripts = Vec::new();
    for _ in 0..ns {
        let mut b = (budget / ns).max(1) + 1;
        scripts.push(gen_script(r, m, 0, &mut b));
    }
    budget = 0;
    let _ = budget;
    Data {
        scripts,
        ints: (0..4).map(|_| *r.pick(INTS)).collect(),
        floats: (0..3).map(|_| float_bits(r)).collect(),
        strings: (0..3).map(|_| gen_text(r, m, 4)).collect(),
        choices: (0..6).map(|_| (r.next() >> 40) as u32).collect(),
    }
}

/// Static facts about the generated tables, handed in by the binary.
pub struct Tables<'a> {
    pub n_specs: usize,
    pub spec_strs: &'a [&'static str],
    /// indices of `{:?}` and `{:#?}`
    pub plain_idx: usize,
    pub pretty_idx: usize,
    pub corpus_seed: u64,
    pub type_names: &'a [&'static str],
    pub type_srcs: &'a [&'static str],
}

pub fn gen_case(seed: u64, index: u64, t: &Tables<'_>) -> Case {
    let mut r = Rng::new(seed, index);
    let m = gen_mix(&mut r);
    let layer = if t.type_names.is_empty() || r.chance(1, 2) {
        let mut k = *r.pick(&[0usize, 1, 1, 2, 2, 3, 4, 5, 8]);
        // rarely a very long history: counters of the builder at and around 255 / 256 (a stream of its own, so
        // that the other runs of a seed stay what they were)
        let mut long = Rng::new(seed ^ 0x10F6_10F6, index);
        if long.chance(1, 500) {
            k = *long.pick(&[254usize, 255, 256, 257, 258, 300, 513]);
        }
        let mut fields = Vec::new();
        for _ in 0..k {
            let mut b = (m.max_actions / k.max(1)).max(1) + 1;
            fields.push(gen_script(&mut r, &m, 0, &mut b));
        }
        Layer::Builder {
            name: r.pick(NAMES).to_string(),
            fields,
            non_exh: r.chance(1, 3),
        }
    } else {
        let idx = r.below(t.type_names.len());
        Layer::Derived {
            corpus_seed: t.corpus_seed,
            type_idx: idx,
            type_name: t.type_names[idx].to_string(),
            type_src: t.type_srcs[idx].to_string(),
            data: gen_data(&mut r, &m),
        }
    };
    let ctx = if r.chance(1, 2) { Ctx::Bare } else { *r.pick(&ALL_CTX) };
    let spec_idx = match r.below(10) {
        0..=2 => t.plain_idx,
        3..=5 => t.pretty_idx,
        _ => r.below(t.n_specs),
    };
    let sink_kind = match r.below(10) {
        0..=4 => 0u8,
        5..=7 => 1,
        _ => 2,
    };
    Case {
        layer,
        ctx,
        spec_idx,
        spec: t.spec_strs[spec_idx].to_string(),
        w: *r.pick(&[0usize, 1, 2, 5, 8, 13, 40]),
        p: *r.pick(&[0usize, 1, 3, 10]),
        sink: SinkFault::None,
        sink_permille: r.below(1001) as u32,
        sink_kind,
    }
}
