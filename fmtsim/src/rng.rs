//! The only source of randomness in the simulator: SplitMix64 -> xoshiro256**.
//! Every choice of a run (workload, chunk schedule, spec, faults) is drawn from
//! one `Rng` seeded from (VERIF_SEED, case index). Nothing here reads a clock,
//! the OS, or an address.

#[derive(Clone, Debug)]
pub struct Rng {
    s: [u64; 4],
}

pub fn splitmix64(x: &mut u64) -> u64 {
    *x = x.wrapping_add(0x9E37_79B9_7F4A_7C15);
    let mut z = *x;
    z = (z ^ (z >> 30)).wrapping_mul(0xBF58_476D_1CE4_E5B9);
    z = (z ^ (z >> 27)).wrapping_mul(0x94D0_49BB_1331_11EB);
    z ^ (z >> 31)
}

impl Rng {
    pub fn new(seed: u64, stream: u64) -> Self {
        let mut x = seed ^ stream.wrapping_mul(0xD6E8_FEB8_6659_FD93).rotate_left(17);
        let mut s = [0u64; 4];
        for v in s.iter_mut() {
            *v = splitmix64(&mut x);
        }
        if s == [0; 4] {
            s[0] = 1;
        }
        Rng { s }
    }

    pub fn next(&mut self) -> u64 {
        let r = self.s[1].wrapping_mul(5).rotate_left(7).wrapping_mul(9);
        let t = self.s[1] << 17;
        self.s[2] ^= self.s[0];
        self.s[3] ^= self.s[1];
        self.s[1] ^= self.s[2];
        self.s[0] ^= self.s[3];
        self.s[2] ^= t;
        self.s[3] = self.s[3].rotate_left(45);
        r
    }

    /// Uniform in `0..n` (n > 0).
    pub fn below(&mut self, n: usize) -> usize {
        debug_assert!(n > 0);
        ((self.next() >> 11) % (n as u64)) as usize
    }

    pub fn range(&mut self, lo: usize, hi_incl: usize) -> usize {
        lo + self.below(hi_incl - lo + 1)
    }

    /// True with probability `num/den`.
    pub fn chance(&mut self, num: usize, den: usize) -> bool {
        self.below(den) < num
    }

    pub fn pick<'a, T>(&mut self, xs: &'a [T]) -> &'a T {
        &xs[self.below(xs.len())]
    }

    /// Index drawn with the given integer weights (at least one non-zero).
    pub fn weighted(&mut self, w: &[u32]) -> usize {
        let total: u64 = w.iter().map(|x| *x as u64).sum();
        let mut r = (self.next() >> 11) % total.max(1);
        for (i, x) in w.iter().enumerate() {
            if r < *x as u64 {
                return i;
            }
            r -= *x as u64;
        }
        w.len() - 1
    }
}

/// FNV-1a, used for digests (fixed, no per-process keys).
#[derive(Clone, Copy)]
pub struct Fnv(pub u64);

impl Default for Fnv {
    fn default() -> Self {
        Fnv(0xcbf2_9ce4_8422_2325)
    }
}

impl Fnv {
    pub fn bytes(&mut self, b: &[u8]) {
        for x in b {
            self.0 ^= *x as u64;
            self.0 = self.0.wrapping_mul(0x0000_0100_0000_01B3);
        }
    }
    pub fn u64(&mut self, v: u64) {
        self.bytes(&v.to_le_bytes());
    }
}
