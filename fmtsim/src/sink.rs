//! Simulated *sink*: the `fmt::Write` behind the caller's `Formatter`.
//!
//! Fault kinds: none; `Full` — a byte budget after which every write fails
//! (disk full); `Once` — a byte budget at which exactly one write fails and the
//! sink works again afterwards (transient error). On the failing write the part
//! of the chunk that still fits (cut at a char boundary) is stored, so the sink
//! contents are a function of the *byte stream* and the budget only, never of
//! how a builder happens to cut its own punctuation into chunks.

use crate::script::probe;
use serde::{Deserialize, Serialize};
use std::fmt;

#[derive(Clone, Copy, Debug, PartialEq, Eq, Serialize, Deserialize)]
pub enum SinkFault {
    None,
    Full(usize),
    Once(usize),
}

pub struct FaultSink {
    pub out: String,
    fault: SinkFault,
    pub fired: u32,
    /// script nesting depth when the fault fired (0 = inside builder punctuation / name)
    pub fired_depth: u32,
    pub fired_scripts_entered: u32,
    pub writes: u32,
    pub writes_after_fault: u32,
}

impl FaultSink {
    pub fn new(fault: SinkFault) -> Self {
        FaultSink {
            out: String::new(),
            fault,
            fired: 0,
            fired_depth: 0,
            fired_scripts_entered: 0,
            writes: 0,
            writes_after_fault: 0,
        }
    }
}

impl fmt::Write for FaultSink {
    fn write_str(&mut self, s: &str) -> fmt::Result {
        self.writes += 1;
        if self.fired > 0 {
            self.writes_after_fault += 1;
        }
        let budget = match self.fault {
            SinkFault::None => None,
            SinkFault::Full(n) => Some(n),
            SinkFault::Once(n) => {
                if self.fired > 0 {
                    None
                } else {
                    Some(n)
                }
            }
        };
        match budget {
            None => {
                self.out.push_str(s);
                Ok(())
            }
            Some(n) => {
                let room = n.saturating_sub(self.out.len());
                if s.len() <= room {
                    self.out.push_str(s);
                    Ok(())
                } else {
                    let mut cut = room;
                    while !s.is_char_boundary(cut) {
                        cut -= 1;
                    }
                    self.out.push_str(&s[..cut]);
                    if let SinkFault::Full(_) = self.fault {
                        // nothing fits any more, whatever the next chunk's size
                        self.fault = SinkFault::Full(self.out.len());
                    }
                    if self.fired == 0 {
                        let (d, e) = probe(|p| (p.script_depth, p.scripts_entered));
                        self.fired_depth = d;
                        self.fired_scripts_entered = e;
                    }
                    self.fired += 1;
                    Err(fmt::Error)
                }
            }
        }
    }
}
