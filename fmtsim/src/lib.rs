//! fmtsim — deterministic simulation of derive_more's Debug runtime (property C06).
//! See /verif/DESIGN.md §3.
pub mod case;
pub mod corpus_rt;
pub mod rng;
pub mod run;
pub mod script;
pub mod shrink;
pub mod sink;
pub mod generated {
    pub mod corpus;
    pub mod specs;
}
