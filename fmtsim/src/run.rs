//! Executes one case on one side and judges a case (refinement against core).

use crate::case::{Case, Ctx, Layer};
use crate::generated::corpus::{self, Module};
use crate::generated::specs;
use crate::rng::Fnv;
use crate::script::{self, emit_tuple, CaseProbe, Script, Side};
use crate::sink::{FaultSink, SinkFault};
use std::fmt::{self, Debug, Formatter};

pub struct Outcome {
    pub out: String,
    pub ok: bool,
    /// the formatting call panicked (caught): an outcome of its own, compared like the others
    pub panicked: bool,
    pub fired: u32,
    pub fired_depth: u32,
    pub fired_scripts_entered: u32,
    pub writes: u32,
    pub writes_after_fault: u32,
    pub probe: CaseProbe,
}

impl Outcome {
    pub fn same(&self, o: &Outcome) -> bool {
        self.ok == o.ok && self.out == o.out && self.panicked == o.panicked
    }
}

struct TopBuilder<'a> {
    name: &'a str,
    fields: &'a [Script],
    non_exh: bool,
}

impl Debug for TopBuilder<'_> {
    fn fmt(&self, f: &mut Formatter<'_>) -> fmt::Result {
        let refs: Vec<&dyn Debug> = self.fields.iter().map(|s| s as &dyn Debug).collect();
        emit_tuple(f, self.name, &refs, self.non_exh)
    }
}

struct InStruct<'a>(&'a dyn Debug);
impl Debug for InStruct<'_> {
    fn fmt(&self, f: &mut Formatter<'_>) -> fmt::Result {
        f.debug_struct("W").field("x", self.0).field("y", &2u8).finish()
    }
}
struct InMap<'a>(&'a dyn Debug);
impl Debug for InMap<'_> {
    fn fmt(&self, f: &mut Formatter<'_>) -> fmt::Result {
        f.debug_map().entry(&"k", self.0).finish()
    }
}

fn fmt_in_ctx(v: &dyn Debug, case: &Case, sink: &mut FaultSink) -> fmt::Result {
    let (i, w, p) = (case.spec_idx, case.w, case.p);
    match case.ctx {
        Ctx::Bare => specs::write_spec(i, sink, v, w, p),
        Ctx::OptSome => specs::write_spec(i, sink, &Some(v), w, p),
        Ctx::Slice1 => specs::write_spec(i, sink, &[v], w, p),
        Ctx::Slice2 => specs::write_spec(i, sink, &[v, v], w, p),
        Ctx::Pair => specs::write_spec(i, sink, &(1u8, v), w, p),
        Ctx::StructField => specs::write_spec(i, sink, &InStruct(v), w, p),
        Ctx::MapValue => specs::write_spec(i, sink, &InMap(v), w, p),
    }
}

/// Which module of the corpus stands for `side`.
pub fn module_for(side: Side, idx: usize) -> Module {
    match side {
        Side::Dm => Module::Dm,
        Side::Ref => {
            if corpus::HAS_SD[idx] {
                Module::Sd
            } else {
                Module::Hw
            }
        }
        Side::RefAdj => Module::Hw,
    }
}

pub fn run_module(case: &Case, side: Side, module: Option<Module>) -> Outcome {
    script::set_side(side);
    script::set_lenient_ok(!matches!(case.sink, SinkFault::Once(_)));
    script::probe_reset();
    let mut sink = FaultSink::new(case.sink);
    let caught = std::panic::catch_unwind(std::panic::AssertUnwindSafe(|| match &case.layer {
        Layer::Builder {
            name,
            fields,
            non_exh,
        } => {
            let top = TopBuilder {
                name,
                fields,
                non_exh: *non_exh,
            };
            fmt_in_ctx(&top, case, &mut sink)
        }
        Layer::Derived { type_idx, data, .. } => {
            let m = module.unwrap_or_else(|| module_for(side, *type_idx));
            corpus::with_value(m, *type_idx, data, &mut |v| fmt_in_ctx(v, case, &mut sink))
        }
    }));
    let (res, panicked) = match caught {
        Ok(r) => (r, false),
        Err(_) => (Err(fmt::Error), true),
    };
    let probe = script::probe_take();
    Outcome {
        ok: res.is_ok(),
        panicked,
        fired: sink.fired,
        fired_depth: sink.fired_depth,
        fired_scripts_entered: sink.fired_scripts_entered,
        writes: sink.writes,
        writes_after_fault: sink.writes_after_fault,
        out: sink.out,
        probe,
    }
}

pub fn run_side(case: &Case, side: Side) -> Outcome {
    run_module(case, side, None)
}

/// Resolve the fault position: a point inside the fault-free reference output.
pub fn resolve_sink(case: &mut Case) {
    if case.sink_kind == 0 {
        case.sink = SinkFault::None;
        return;
    }
    let mut probe_case = case.clone();
    probe_case.sink = SinkFault::None;
    let len = run_side(&probe_case, Side::Ref).out.len();
    let at = (len as u64 * case.sink_permille as u64 / 1000) as usize;
    case.sink = if case.sink_kind == 1 {
        SinkFault::Full(at)
    } else {
        SinkFault::Once(at)
    };
}

pub enum Verdict {
    Agree,
    /// matches the reference adjusted by the named defect model exactly
    KnownFinding(&'static str),
    Violation(String),
    /// the simulator disagrees with itself (std derive vs hand-written reference)
    Harness(String),
}

pub struct Judged {
    pub verdict: Verdict,
    pub dm: Outcome,
    pub rf: Outcome,
}

pub const KF1: &str = "KF1-pretty-positional-field-options-reset";

pub fn judge(case: &Case) -> Judged {
    let dm = run_side(case, Side::Dm);
    let rf = run_side(case, Side::Ref);
    if let Layer::Derived { type_idx, .. } = &case.layer {
        if corpus::EXCLUDED[*type_idx] {
            // no derive_more::Debug impl exists for this type (a violation of its own, reported by the driver);
            // what stands in for it is the reference impl, which says nothing about derive_more
            return Judged { verdict: Verdict::Agree, dm, rf };
        }
    }
    // harness self-check: where std's derive exists, the hand-written reference must equal it
    if let Layer::Derived { type_idx, .. } = &case.layer {
        if corpus::HAS_SD[*type_idx] {
            let hw = run_module(case, Side::Ref, Some(Module::Hw));
            if !hw.same(&rf) {
                return Judged {
                    verdict: Verdict::Harness(format!(
                        "hand-written reference differs from std derive: std={:?}/{} hw={:?}/{}",
                        rf.out, rf.ok, hw.out, hw.ok
                    )),
                    dm,
                    rf,
                };
            }
        }
    }
    if dm.same(&rf) {
        return Judged {
            verdict: Verdict::Agree,
            dm,
            rf,
        };
    }
    let adj = run_side(case, Side::RefAdj);
    if adj.probe.reset_applied > 0 && dm.same(&adj) {
        return Judged {
            verdict: Verdict::KnownFinding(KF1),
            dm,
            rf,
        };
    }
    let what = if dm.panicked != rf.panicked {
        format!("derive_more {} where std {}", if dm.panicked { "panics" } else { "does not panic" }, if rf.panicked { "panics" } else { "does not" })
    } else if dm.ok != rf.ok {
        format!("result differs: derive_more {} vs std {}", res_s(dm.ok), res_s(rf.ok))
    } else {
        let at = dm
            .out
            .bytes()
            .zip(rf.out.bytes())
            .position(|(a, b)| a != b)
            .unwrap_or(dm.out.len().min(rf.out.len()));
        format!("text differs at byte {at}")
    };
    Judged {
        verdict: Verdict::Violation(what),
        dm,
        rf,
    }
}

fn res_s(ok: bool) -> &'static str {
    if ok {
        "Ok"
    } else {
        "Err"
    }
}

/// Abstract state reached by a case, for the "distinct states" measure.
pub fn state_key(case: &Case, j: &Judged) -> u64 {
    let info = specs::SPEC_INFO[case.spec_idx];
    let mut h = Fnv::default();
    match &case.layer {
        Layer::Builder {
            name,
            fields,
            non_exh,
        } => {
            h.u64(1);
            h.u64(name.is_empty() as u64);
            h.u64(fields.len().min(3) as u64);
            h.u64(*non_exh as u64);
        }
        Layer::Derived { type_idx, .. } => {
            h.u64(2);
            h.u64(*type_idx as u64);
        }
    }
    h.u64(case.ctx as u64);
    h.u64(info.alt as u64);
    h.u64(info.hex as u64);
    h.u64(info.width as u64);
    h.u64(info.prec as u64);
    h.u64((info.fill_align != 0) as u64);
    h.u64(info.sign as u64);
    h.u64(info.zero as u64);
    h.u64(case.sink_kind as u64);
    let d = &j.dm;
    h.u64(d.ok as u64);
    h.u64(d.fired.min(1) as u64);
    // position class of the sink fault: in punctuation before any field / between / inside a field
    let pos = if d.fired == 0 {
        0
    } else if d.fired_depth > 0 {
        3
    } else if d.fired_scripts_entered == 0 {
        1
    } else {
        2
    };
    h.u64(pos);
    h.u64(d.probe.fail_fired.min(1) as u64);
    h.u64(d.probe.sut_depth_max.min(3) as u64);
    h.u64(d.probe.newline_chunk_end_pretty.min(1) as u64);
    h.u64(d.probe.newline_mid_chunk_pretty.min(1) as u64);
    h.u64(d.probe.sut_nonexh_pretty.min(1) as u64);
    h.u64(d.probe.sut_empty_name_single.min(1) as u64);
    h.0
}
