//! Minimisation of a failing case: greedy descent over simplifying edits while the
//! same violation class persists. Each candidate is re-judged from scratch; the
//! simulator is deterministic, so the loop always terminates at a fixpoint.

use crate::case::{Case, Ctx, Data, Layer};
use crate::script::{Action, Script};
use crate::sink::SinkFault;

fn script_edits(s: &Script) -> Vec<Script> {
    let mut out = Vec::new();
    // drop one action
    for i in 0..s.0.len() {
        let mut v = s.0.clone();
        v.remove(i);
        out.push(Script(v));
    }
    // simplify one action in place
    for i in 0..s.0.len() {
        for a in action_edits(&s.0[i]) {
            let mut v = s.0.clone();
            v.splice(i..=i, a);
            out.push(Script(v));
        }
    }
    out
}

fn shorter(s: &str) -> Vec<String> {
    let cs: Vec<char> = s.chars().collect();
    let mut out = Vec::new();
    if cs.len() > 1 {
        out.push(cs[..cs.len() / 2].iter().collect());
        out.push(cs[cs.len() / 2..].iter().collect());
        for i in 0..cs.len() {
            let mut v = cs.clone();
            v.remove(i);
            out.push(v.into_iter().collect());
        }
    } else if cs.len() == 1 && cs[0] != 'a' && cs[0] != '\n' {
        out.push("a".to_string());
    }
    out
}

fn kids_edits(kids: &[Script], rebuild: &dyn Fn(Vec<Script>) -> Action) -> Vec<Vec<Action>> {
    let mut out = Vec::new();
    // hoist a child's actions in place of the whole container
    for k in kids {
        out.push(k.0.clone());
    }
    // drop a child
    for i in 0..kids.len() {
        let mut v = kids.to_vec();
        v.remove(i);
        out.push(vec![rebuild(v)]);
    }
    // edit inside a child
    for i in 0..kids.len() {
        for e in script_edits(&kids[i]) {
            let mut v = kids.to_vec();
            v[i] = e;
            out.push(vec![rebuild(v)]);
        }
    }
    out
}

/// Replacement action lists for one action (each strictly simpler).
fn action_edits(a: &Action) -> Vec<Vec<Action>> {
    let mut out: Vec<Vec<Action>> = Vec::new();
    match a {
        Action::Str(s) => out.extend(shorter(s).into_iter().map(|x| vec![Action::Str(x)])),
        Action::Fmt(s) => {
            out.push(vec![Action::Str(s.clone())]);
            out.extend(shorter(s).into_iter().map(|x| vec![Action::Fmt(x)]));
        }
        Action::Fmt2(a, b) => {
            out.push(vec![Action::Str(a.clone()), Action::Str(b.clone())]);
        }
        Action::Pad(s) => out.extend(shorter(s).into_iter().map(|x| vec![Action::Pad(x)])),
        Action::StrDbg(s) => out.extend(shorter(s).into_iter().map(|x| vec![Action::StrDbg(x)])),
        Action::Char(c) if *c != 'a' && *c != '\n' => out.push(vec![Action::Char('a')]),
        Action::Int(i) if *i != 255 && *i != 0 => {
            out.push(vec![Action::Int(255)]);
            out.push(vec![Action::Int(0)]);
        }
        Action::UInt(i) if *i != 255 => out.push(vec![Action::Int(255)]),
        Action::Float(b) if *b != 1.5f64.to_bits() => out.push(vec![Action::Float(1.5f64.to_bits())]),
        Action::CoreStruct {
            name,
            fields,
            non_exh,
        } => {
            let names: Vec<String> = fields.iter().map(|(n, _)| n.clone()).collect();
            let kids: Vec<Script> = fields.iter().map(|(_, s)| s.clone()).collect();
            let (name, non_exh) = (name.clone(), *non_exh);
            out.extend(kids_edits(&kids, &move |v: Vec<Script>| Action::CoreStruct {
                name: name.clone(),
                fields: v
                    .into_iter()
                    .enumerate()
                    .map(|(i, s)| (names.get(i).cloned().unwrap_or_else(|| "a".into()), s))
                    .collect(),
                non_exh,
            }));
        }
        Action::CoreTuple { name, fields } => {
            let name = name.clone();
            out.extend(kids_edits(fields, &move |v| Action::CoreTuple {
                name: name.clone(),
                fields: v,
            }));
        }
        Action::CoreList(xs) => out.extend(kids_edits(xs, &|v| Action::CoreList(v))),
        Action::CoreSet(xs) => out.extend(kids_edits(xs, &|v| Action::CoreSet(v))),
        Action::CoreMap(kv) => {
            for (k, v) in kv {
                out.push(k.0.clone());
                out.push(v.0.clone());
            }
            for i in 0..kv.len() {
                let mut n = kv.clone();
                n.remove(i);
                out.push(vec![Action::CoreMap(n)]);
            }
            for i in 0..kv.len() {
                for e in script_edits(&kv[i].0) {
                    let mut n = kv.clone();
                    n[i].0 = e;
                    out.push(vec![Action::CoreMap(n)]);
                }
                for e in script_edits(&kv[i].1) {
                    let mut n = kv.clone();
                    n[i].1 = e;
                    out.push(vec![Action::CoreMap(n)]);
                }
            }
        }
        Action::OptSome(s) => {
            out.push(s.0.clone());
            for e in script_edits(s) {
                out.push(vec![Action::OptSome(Box::new(e))]);
            }
        }
        Action::Pair(a, b) => {
            out.push(a.0.clone());
            out.push(b.0.clone());
            for e in script_edits(a) {
                out.push(vec![Action::Pair(Box::new(e), b.clone())]);
            }
            for e in script_edits(b) {
                out.push(vec![Action::Pair(a.clone(), Box::new(e))]);
            }
        }
        Action::SutTuple {
            name,
            fields,
            non_exh,
        } => {
            let (nm, ne) = (name.clone(), *non_exh);
            out.extend(kids_edits(fields, &move |v| Action::SutTuple {
                name: nm.clone(),
                fields: v,
                non_exh: ne,
            }));
            if *non_exh {
                out.push(vec![Action::SutTuple {
                    name: name.clone(),
                    fields: fields.clone(),
                    non_exh: false,
                }]);
            }
            if name != "T" {
                out.push(vec![Action::SutTuple {
                    name: "T".into(),
                    fields: fields.clone(),
                    non_exh: *non_exh,
                }]);
            }
        }
        _ => {}
    }
    out
}

fn data_edits(d: &Data) -> Vec<Data> {
    let mut out = Vec::new();
    for i in 0..d.scripts.len() {
        if d.scripts.len() > 1 {
            let mut n = d.clone();
            n.scripts.remove(i);
            out.push(n);
        }
        for e in script_edits(&d.scripts[i]) {
            let mut n = d.clone();
            n.scripts[i] = e;
            out.push(n);
        }
    }
    if d.choices.len() > 1 {
        let mut n = d.clone();
        n.choices.truncate(1);
        out.push(n);
    }
    if d.ints.iter().any(|x| *x != 7) {
        let mut n = d.clone();
        n.ints = vec![7];
        out.push(n);
    }
    if d.floats.iter().any(|x| *x != 1.5f64.to_bits()) {
        let mut n = d.clone();
        n.floats = vec![1.5f64.to_bits()];
        out.push(n);
    }
    if d.strings.iter().any(|x| x != "s") {
        let mut n = d.clone();
        n.strings = vec!["s".into()];
        out.push(n);
    }
    out
}

pub struct SpecTable<'a> {
    pub plain_idx: usize,
    pub pretty_idx: usize,
    pub strs: &'a [&'static str],
    /// for each spec, indices of specs with exactly one component removed
    pub simpler: &'a dyn Fn(usize) -> Vec<usize>,
}

fn candidates(c: &Case, t: &SpecTable<'_>) -> Vec<Case> {
    let mut out = Vec::new();
    let mut push = |n: Case| out.push(n);
    if c.sink != SinkFault::None {
        let mut n = c.clone();
        n.sink = SinkFault::None;
        n.sink_kind = 0;
        push(n);
        if let SinkFault::Once(k) = c.sink {
            let mut n = c.clone();
            n.sink = SinkFault::Full(k);
            n.sink_kind = 1;
            push(n);
        }
    }
    if c.ctx != Ctx::Bare {
        let mut n = c.clone();
        n.ctx = Ctx::Bare;
        push(n);
    }
    // plain is the bottom; pretty is offered only from above it (no plain <-> pretty cycle)
    let mut firsts = Vec::new();
    if c.spec_idx != t.plain_idx {
        firsts.push(t.plain_idx);
        if c.spec_idx != t.pretty_idx {
            firsts.push(t.pretty_idx);
        }
    }
    for idx in firsts.into_iter().chain((t.simpler)(c.spec_idx)) {
        if idx != c.spec_idx {
            let mut n = c.clone();
            n.spec_idx = idx;
            n.spec = t.strs[idx].to_string();
            push(n);
        }
    }
    for w in [0usize, 1, 5] {
        if w < c.w {
            let mut n = c.clone();
            n.w = w;
            push(n);
        }
    }
    for p in [0usize, 1] {
        if p < c.p {
            let mut n = c.clone();
            n.p = p;
            push(n);
        }
    }
    match &c.layer {
        Layer::Builder {
            name,
            fields,
            non_exh,
        } => {
            for i in 0..fields.len() {
                let mut v = fields.clone();
                v.remove(i);
                let mut n = c.clone();
                n.layer = Layer::Builder {
                    name: name.clone(),
                    fields: v,
                    non_exh: *non_exh,
                };
                push(n);
            }
            if *non_exh {
                let mut n = c.clone();
                n.layer = Layer::Builder {
                    name: name.clone(),
                    fields: fields.clone(),
                    non_exh: false,
                };
                push(n);
            }
            if name != "T" {
                let mut n = c.clone();
                n.layer = Layer::Builder {
                    name: "T".into(),
                    fields: fields.clone(),
                    non_exh: *non_exh,
                };
                push(n);
            }
            for i in 0..fields.len() {
                for e in script_edits(&fields[i]) {
                    let mut v = fields.clone();
                    v[i] = e;
                    let mut n = c.clone();
                    n.layer = Layer::Builder {
                        name: name.clone(),
                        fields: v,
                        non_exh: *non_exh,
                    };
                    push(n);
                }
            }
        }
        Layer::Derived {
            corpus_seed,
            type_idx,
            type_name,
            type_src,
            data,
        } => {
            for d in data_edits(data) {
                let mut n = c.clone();
                n.layer = Layer::Derived {
                    corpus_seed: *corpus_seed,
                    type_idx: *type_idx,
                    type_name: type_name.clone(),
                    type_src: type_src.clone(),
                    data: d,
                };
                push(n);
            }
        }
    }
    out
}

/// Greedy minimisation. `still_fails` must be deterministic.
pub fn minimise(start: &Case, t: &SpecTable<'_>, still_fails: &dyn Fn(&Case) -> bool) -> (Case, usize) {
    let mut cur = start.clone();
    let mut steps = 0usize;
    let mut tried = 0usize;
    'outer: loop {
        for cand in candidates(&cur, t) {
            tried += 1;
            if tried > 200_000 {
                break 'outer;
            }
            if still_fails(&cand) {
                cur = cand;
                steps += 1;
                continue 'outer;
            }
        }
        break;
    }
    (cur, steps)
}
