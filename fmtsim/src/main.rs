use fmtsim::case::{gen_case, Case, Layer, Tables};
use fmtsim::generated::{corpus, specs};
use fmtsim::rng::Fnv;
use fmtsim::run::{judge, resolve_sink, state_key, Judged, Verdict};
use fmtsim::script::CaseProbe;
use fmtsim::shrink::{minimise, SpecTable};
use fmtsim::sink::SinkFault;
use serde_json::{json, Value};
use std::collections::{BTreeMap, HashSet};
use std::process::exit;

fn tables() -> Tables<'static> {
    Tables {
        n_specs: specs::N_SPECS,
        spec_strs: &specs::SPECS,
        plain_idx: specs::PLAIN_IDX,
        pretty_idx: specs::PRETTY_IDX,
        corpus_seed: corpus::CORPUS_SEED,
        type_names: &corpus::TYPE_NAMES,
        type_srcs: &corpus::TYPE_SRCS,
    }
}

fn spec_index(i: specs::SpecInfo) -> usize {
    ((((((i.fill_align as usize) * 3 + i.sign as usize) * 2 + i.alt as usize) * 2 + i.zero as usize) * 2
        + i.width as usize)
        * 2
        + i.prec as usize)
        * 3
        + i.hex as usize
}

fn simpler_specs(idx: usize) -> Vec<usize> {
    let i = specs::SPEC_INFO[idx];
    let mut out = Vec::new();
    let mut push = |j: specs::SpecInfo| out.push(spec_index(j));
    if i.fill_align != 0 {
        push(specs::SpecInfo { fill_align: 0, ..i });
        if i.fill_align > 6 {
            push(specs::SpecInfo { fill_align: i.fill_align - 3, ..i });
        }
        if i.fill_align > 3 {
            push(specs::SpecInfo { fill_align: (i.fill_align - 1) % 3 + 1, ..i });
        }
    }
    if i.sign != 0 {
        push(specs::SpecInfo { plus: false, sign: 0, ..i });
    }
    if i.zero {
        push(specs::SpecInfo { zero: false, ..i });
    }
    if i.width {
        push(specs::SpecInfo { width: false, ..i });
    }
    if i.prec {
        push(specs::SpecInfo { prec: false, ..i });
    }
    if i.hex != 0 {
        push(specs::SpecInfo { hex: 0, ..i });
    }
    if i.hex == 2 {
        push(specs::SpecInfo { hex: 1, ..i });
    }
    if i.alt {
        push(specs::SpecInfo { alt: false, ..i });
    }
    out
}

fn spec_table() -> SpecTable<'static> {
    SpecTable {
        plain_idx: specs::PLAIN_IDX,
        pretty_idx: specs::PRETTY_IDX,
        strs: &specs::SPECS,
        simpler: &simpler_specs,
    }
}

#[derive(Default)]
struct Stats {
    cases: u64,
    builder: u64,
    derived: u64,
    agree: u64,
    known: u64,
    violations: u64,
    harness: u64,
    fault_free: u64,
    sink_full_cfg: u64,
    sink_once_cfg: u64,
    sink_full_fired: u64,
    sink_once_fired: u64,
    sink_fired_in_field: u64,
    sink_fired_before_first_field: u64,
    sink_fired_between_or_closer: u64,
    script_fail_fired: u64,
    both_err: u64,
    pretty: u64,
    nondefault_spec: u64,
    hex_spec: u64,
    ctx_nested: u64,
    newline_chunk_end_pretty: u64,
    newline_mid_chunk_pretty: u64,
    empty_chunk: u64,
    sut_depth_ge2: u64,
    sut_nonexh_pretty: u64,
    sut_nonexh_plain: u64,
    sut_empty_name_single: u64,
    sut_zero_fields: u64,
    echo_nondefault: u64,
    lenient_continued: u64,
    enumerated_sink_points: u64,
    enumerated_fail_points: u64,
    enumerated_agree: u64,
    enumerated_known: u64,
    digest: u64,
    stable: [u64; 4],
    states: HashSet<u64>,
    types_hit: HashSet<usize>,
    viol: Vec<(u64, Case, String)>,
    known_first: Option<(u64, Case)>,
    harness_first: Option<(u64, Case, String)>,
}

fn add_probe(s: &mut Stats, p: &CaseProbe) {
    s.script_fail_fired += p.fail_fired.min(1) as u64;
    s.newline_chunk_end_pretty += p.newline_chunk_end_pretty.min(1) as u64;
    s.newline_mid_chunk_pretty += p.newline_mid_chunk_pretty.min(1) as u64;
    s.empty_chunk += p.empty_chunk.min(1) as u64;
    s.sut_depth_ge2 += (p.sut_depth_max >= 2) as u64;
    s.sut_nonexh_pretty += p.sut_nonexh_pretty.min(1) as u64;
    s.sut_nonexh_plain += p.sut_nonexh_plain.min(1) as u64;
    s.sut_empty_name_single += p.sut_empty_name_single.min(1) as u64;
    s.sut_zero_fields += p.sut_zero_fields.min(1) as u64;
    s.echo_nondefault += p.echo_nondefault.min(1) as u64;
    s.lenient_continued += p.lenient_continued.min(1) as u64;
}

fn account(s: &mut Stats, index: u64, case: &Case, j: &Judged) {
    s.cases += 1;
    match &case.layer {
        Layer::Builder { .. } => s.builder += 1,
        Layer::Derived { type_idx, .. } => {
            s.derived += 1;
            s.types_hit.insert(*type_idx);
        }
    }
    let info = specs::SPEC_INFO[case.spec_idx];
    s.pretty += info.alt as u64;
    s.hex_spec += (info.hex != 0) as u64;
    s.nondefault_spec += (info.width || info.prec || info.fill_align != 0 || info.sign != 0 || info.zero || info.hex != 0) as u64;
    s.ctx_nested += (case.ctx != fmtsim::case::Ctx::Bare) as u64;
    match case.sink {
        SinkFault::None => {}
        SinkFault::Full(_) => {
            s.sink_full_cfg += 1;
            s.sink_full_fired += j.dm.fired.min(1) as u64;
        }
        SinkFault::Once(_) => {
            s.sink_once_cfg += 1;
            s.sink_once_fired += j.dm.fired.min(1) as u64;
        }
    }
    if j.dm.fired > 0 {
        if j.dm.fired_depth > 0 {
            s.sink_fired_in_field += 1;
        } else if j.dm.fired_scripts_entered == 0 {
            s.sink_fired_before_first_field += 1;
        } else {
            s.sink_fired_between_or_closer += 1;
        }
    }
    add_probe(s, &j.dm.probe);
    if j.dm.fired == 0 && j.dm.probe.fail_fired == 0 {
        s.fault_free += 1;
    }
    if !j.dm.ok && !j.rf.ok {
        s.both_err += 1;
    }
    s.states.insert(state_key(case, j));
    let mut h = Fnv::default();
    h.u64(index);
    // pointer text (`{:p}` fields) is equal on both sides of a run but differs between processes
    let (mdm, mrf) = (mask_pointers(&j.dm.out), mask_pointers(&j.rf.out));
    // a case whose output carries `0x…` text may carry an address: with code under test that prints a
    // *wrong* address, even the verdict can flip with the address values (a cut-off stump may coincide),
    // so such cases are left out of the determinism self-check's verdict comparison
    let address_bearing = mdm != j.dm.out || mrf != j.rf.out;
    h.bytes(mdm.as_bytes());
    h.u64(j.dm.ok as u64);
    h.bytes(mrf.as_bytes());
    h.u64(j.rf.ok as u64);
    let class = match &j.verdict {
        Verdict::Agree => {
            s.agree += 1;
            0
        }
        Verdict::KnownFinding(_) => {
            s.known += 1;
            if s.known_first.as_ref().map_or(true, |(i, _)| index < *i) {
                s.known_first = Some((index, case.clone()));
            }
            1
        }
        Verdict::Violation(w) => {
            s.violations += 1;
            if s.viol.len() < 64 {
                s.viol.push((index, case.clone(), w.clone()));
            }
            2
        }
        Verdict::Harness(w) => {
            s.harness += 1;
            if s.harness_first.as_ref().map_or(true, |(i, _, _)| index < *i) {
                s.harness_first = Some((index, case.clone(), w.clone()));
            }
            3
        }
    };
    if !address_bearing {
        h.u64(class);
        s.stable[class as usize] += 1;
    }
    if let Ok(p) = std::env::var("FMTSIM_TRACE") {
        use std::io::Write;
        if let Ok(mut f) = std::fs::OpenOptions::new().create(true).append(true).open(p) {
            let line = format!("{} {:016x} {}\n", index, h.0, class);
            let _ = f.write_all(line.as_bytes());
        }
    }
    s.digest = s.digest.wrapping_add(h.0 | 1);
}

fn mask_pointers(s: &str) -> String {
    let b = s.as_bytes();
    let mut out = String::with_capacity(s.len());
    let mut i = 0;
    while i < b.len() {
        if b[i] == b'0' && i + 1 < b.len() && b[i + 1] == b'x' {
            let mut j = i + 2;
            while j < b.len() && b[j].is_ascii_hexdigit() {
                j += 1;
            }
            // every `0x…` run is masked, however short: a sink fault can cut a pointer short, and (with a
            // builder that wrongly keeps writing after the fault) more text can follow the stump
            if j > i + 2 {
                out.push_str("0xPTR");
                i = j;
                continue;
            }
        }
        // s is valid UTF-8; copy one char
        let ch_len = match b[i] {
            x if x < 0x80 => 1,
            x if x >= 0xF0 => 4,
            x if x >= 0xE0 => 3,
            _ => 2,
        };
        out.push_str(&s[i..i + ch_len]);
        i += ch_len;
    }
    out
}

fn merge(a: &mut Stats, b: Stats) {
    macro_rules! add { ($($f:ident),*) => { $( a.$f += b.$f; )* } }
    add!(
        cases, builder, derived, agree, known, violations, harness, fault_free, sink_full_cfg, sink_once_cfg,
        sink_full_fired, sink_once_fired, sink_fired_in_field, sink_fired_before_first_field,
        sink_fired_between_or_closer, script_fail_fired, both_err, pretty, nondefault_spec, hex_spec, ctx_nested,
        newline_chunk_end_pretty, newline_mid_chunk_pretty, empty_chunk, sut_depth_ge2, sut_nonexh_pretty,
        sut_nonexh_plain, sut_empty_name_single, sut_zero_fields, echo_nondefault, lenient_continued, enumerated_sink_points, enumerated_fail_points, enumerated_agree, enumerated_known
    );
    a.digest = a.digest.wrapping_add(b.digest);
    for i in 0..4 {
        a.stable[i] += b.stable[i];
    }
    a.states.extend(b.states);
    a.types_hit.extend(b.types_hit);
    a.viol.extend(b.viol);
    if let Some((i, c)) = b.known_first {
        if a.known_first.as_ref().map_or(true, |(j, _)| i < *j) {
            a.known_first = Some((i, c));
        }
    }
    if let Some((i, c, w)) = b.harness_first {
        if a.harness_first.as_ref().map_or(true, |(j, _, _)| i < *j) {
            a.harness_first = Some((i, c, w));
        }
    }
}

fn enumerate_fault_points(s: &mut Stats, index: u64, base: &Case, ref_len: usize) {
    use fmtsim::script::Action;
    let mut clean = base.clone();
    clean.sink = SinkFault::None;
    clean.sink_kind = 0;
    // reference length of the fault-free run
    let len = if base.sink == SinkFault::None { ref_len } else { judge(&clean).rf.out.len() };
    if len <= 400 {
        for at in 0..=len {
            for kind in 1..=2u8 {
                let mut c = clean.clone();
                c.sink_kind = kind;
                c.sink = if kind == 1 { SinkFault::Full(at) } else { SinkFault::Once(at) };
                let j = judge(&c);
                s.enumerated_sink_points += 1;
                account_enumerated(s, index, &c, &j);
            }
        }
    }
    // a failing step at every position of every top-level script
    let n_scripts = match &clean.layer {
        Layer::Builder { fields, .. } => fields.len(),
        Layer::Derived { data, .. } => data.scripts.len(),
    };
    for k in 0..n_scripts {
        let n_pos = match &clean.layer {
            Layer::Builder { fields, .. } => fields[k].0.len(),
            Layer::Derived { data, .. } => data.scripts[k].0.len(),
        };
        for pos in 0..=n_pos.min(24) {
            let mut c = clean.clone();
            match &mut c.layer {
                Layer::Builder { fields, .. } => fields[k].0.insert(pos, Action::Fail),
                Layer::Derived { data, .. } => data.scripts[k].0.insert(pos, Action::Fail),
            }
            let j = judge(&c);
            s.enumerated_fail_points += 1;
            account_enumerated(s, index, &c, &j);
        }
    }
}

/// Enumerated variants count as evaluations and can be violations, but stay out of the sampled statistics.
fn account_enumerated(s: &mut Stats, index: u64, case: &Case, j: &Judged) {
    s.states.insert(state_key(case, j));
    match &j.verdict {
        Verdict::Agree => s.enumerated_agree += 1,
        Verdict::KnownFinding(_) => s.enumerated_known += 1,
        Verdict::Violation(w) => {
            s.violations += 1;
            if s.viol.len() < 64 {
                s.viol.push((index, case.clone(), w.clone()));
            }
        }
        Verdict::Harness(w) => {
            s.harness += 1;
            if s.harness_first.as_ref().map_or(true, |(i, _, _)| index < *i) {
                s.harness_first = Some((index, case.clone(), w.clone()));
            }
        }
    }
}

fn make_case(seed: u64, index: u64) -> Case {
    let mut c = gen_case(seed, index, &tables());
    resolve_sink(&mut c);
    c
}

fn case_report(case: &Case) -> Value {
    let j = judge(case);
    json!({
        "case": case,
        "derive_more": {"out": j.dm.out, "result": if j.dm.ok {"Ok"} else {"Err"}},
        "reference": {"out": j.rf.out, "result": if j.rf.ok {"Ok"} else {"Err"}},
        "verdict": match &j.verdict { Verdict::Agree => "agree".to_string(), Verdict::KnownFinding(k) => format!("known-finding {k}"),
            Verdict::Violation(w) => format!("violation: {w}"), Verdict::Harness(w) => format!("harness: {w}") },
    })
}

fn arg<'a>(args: &'a [String], key: &str) -> Option<&'a str> {
    args.iter().position(|a| a == key).and_then(|i| args.get(i + 1)).map(|s| s.as_str())
}

fn cmd_run(args: &[String]) -> i32 {
    let seed: u64 = arg(args, "--seed").map(|s| s.parse().unwrap()).unwrap_or(1);
    let n: u64 = arg(args, "--cases").map(|s| s.parse().unwrap()).unwrap_or(100_000);
    let start: u64 = arg(args, "--start").map(|s| s.parse().unwrap()).unwrap_or(0);
    let threads: u64 = arg(args, "--threads").map(|s| s.parse().unwrap()).unwrap_or(16);
    let out = arg(args, "--out").unwrap_or("stats.json").to_string();
    let replay_dir = arg(args, "--replay-dir").unwrap_or("/verif/replays").to_string();
    let t0 = std::time::Instant::now(); // wall time for the evidence file only; never feeds the simulation
    let mut total = Stats::default();
    let handles: Vec<_> = (0..threads)
        .map(|t| {
            std::thread::spawn(move || {
                let mut s = Stats::default();
                let mut i = start + t;
                while i < start + n {
                    let case = make_case(seed, i);
                    let j = judge(&case);
                    account(&mut s, i, &case, &j);
                    // every 64th run: *enumerate* the fault points of that run instead of sampling one —
                    // every byte budget of the sink (both kinds) and a failing step at every position of
                    // every top-level field script
                    if i % 64 == 0 {
                        enumerate_fault_points(&mut s, i, &case, j.rf.out.len());
                    }
                    i += threads;
                }
                s
            })
        })
        .collect();
    for h in handles {
        merge(&mut total, h.join().expect("worker panicked"));
    }
    let run_s = t0.elapsed().as_secs_f64();
    total.viol.sort_by_key(|v| v.0);
    let st = spec_table();
    // minimise + persist the first few violations
    let mut viol_files = Vec::new();
    std::fs::create_dir_all(&replay_dir).ok();
    for (index, case, what) in total.viol.iter().take(3) {
        let (min, steps) = minimise(case, &st, &|c| matches!(judge(c).verdict, Verdict::Violation(_)));
        let j = judge(&min);
        let what_min = match &j.verdict {
            Verdict::Violation(w) => w.clone(),
            _ => what.clone(),
        };
        let path = format!("{replay_dir}/C06-{seed}-{index}.json");
        let v = json!({
            "property": "C06", "engine": "fmtsim", "seed": seed, "index": index, "corpus_seed": corpus::CORPUS_SEED,
            "what": what_min, "minimise_steps": steps,
            "case": min,
            "derive_more": {"out": j.dm.out, "result": if j.dm.ok {"Ok"} else {"Err"}},
            "reference": {"out": j.rf.out, "result": if j.rf.ok {"Ok"} else {"Err"}},
            "original_case": case,
        });
        std::fs::write(&path, serde_json::to_string_pretty(&v).unwrap()).unwrap();
        viol_files.push(json!({"index": index, "what": what_min, "replay": path}));
    }
    let known = total.known_first.as_ref().map(|(index, case)| {
        let (min, _) = minimise(case, &st, &|c| matches!(judge(c).verdict, Verdict::KnownFinding(_)));
        json!({"id": fmtsim::run::KF1, "first_index": index, "minimised": case_report(&min)})
    });
    let harness = total.harness_first.as_ref().map(|(index, case, w)| json!({"index": index, "what": w, "case": case}));
    let samples: Vec<Value> = (start..start + n.min(4)).map(|i| case_report(&make_case(seed, i))).collect();
    let mut tags: BTreeMap<&str, u64> = BTreeMap::new();
    for t in &total.types_hit {
        for tag in corpus::TYPE_TAGS[*t].split(',') {
            *tags.entry(tag).or_default() += 1;
        }
    }
    let v = json!({
        "seed": seed, "start": start, "cases": total.cases, "threads": threads, "run_s": run_s,
        "corpus_seed": corpus::CORPUS_SEED, "corpus_types": corpus::N_TYPES, "corpus_types_hit": total.types_hit.len(),
        "corpus_types_with_std_derive_twin": corpus::HAS_SD.iter().filter(|x| **x).count(),
        "specs": specs::N_SPECS,
        "layers": {"builder": total.builder, "derived": total.derived},
        "verdicts": {"agree": total.agree, "known_finding": total.known, "violation": total.violations, "harness": total.harness},
        "verdicts_excluding_address_bearing_cases": {"agree": total.stable[0], "known_finding": total.stable[1], "violation": total.stable[2], "harness": total.stable[3]},
        "fault_free_cases": total.fault_free,
        "faults": {
            "sink_full": {"configured": total.sink_full_cfg, "fired": total.sink_full_fired},
            "sink_once": {"configured": total.sink_once_cfg, "fired": total.sink_once_fired},
            "script_fail": {"fired": total.script_fail_fired},
            "sink_fault_position": {"inside_field": total.sink_fired_in_field, "before_first_field": total.sink_fired_before_first_field,
                                     "between_fields_or_closer": total.sink_fired_between_or_closer},
            "both_sides_err": total.both_err,
        },
        "probes": {
            "pretty_spec": total.pretty, "nondefault_spec": total.nondefault_spec, "hex_spec": total.hex_spec, "nested_context": total.ctx_nested,
            "newline_at_chunk_end_pretty": total.newline_chunk_end_pretty, "newline_mid_chunk_pretty": total.newline_mid_chunk_pretty,
            "empty_chunk": total.empty_chunk, "nested_builder_depth_ge2": total.sut_depth_ge2,
            "non_exhaustive_closer_pretty": total.sut_nonexh_pretty, "non_exhaustive_closer_plain": total.sut_nonexh_plain,
            "empty_name_one_tuple": total.sut_empty_name_single, "zero_field_builder": total.sut_zero_fields,
            "options_echo_nondefault": total.echo_nondefault, "ill_behaved_party_continued_after_error": total.lenient_continued,
        },
        "fault_point_enumeration": {"runs_enumerated": (total.cases + 63) / 64, "sink_fault_points": total.enumerated_sink_points, "field_failure_points": total.enumerated_fail_points,
            "agree": total.enumerated_agree, "known_finding": total.enumerated_known},
        "distinct_states": total.states.len(),
        "digest": format!("{:016x}", total.digest),
        "violations": viol_files, "known_finding": known, "harness_error": harness,
        "samples": samples,
    });
    std::fs::write(&out, serde_json::to_string_pretty(&v).unwrap()).unwrap();
    if total.harness > 0 {
        eprintln!("fmtsim: harness self-check failed ({} cases); see {}", total.harness, out);
        return 2;
    }
    if total.violations > 0 {
        1
    } else {
        0
    }
}

fn cmd_replay(args: &[String]) -> i32 {
    let path = &args[0];
    let v: Value = serde_json::from_str(&std::fs::read_to_string(path).expect("read replay")).expect("parse replay");
    let case: Case = serde_json::from_value(v["case"].clone()).expect("case");
    if let Layer::Derived { corpus_seed, .. } = &case.layer {
        if *corpus_seed != corpus::CORPUS_SEED {
            eprintln!("fmtsim: replay needs corpus seed {corpus_seed}, binary has {}", corpus::CORPUS_SEED);
            return 2;
        }
    }
    let r = case_report(&case);
    println!("{}", serde_json::to_string_pretty(&json!({"derive_more": r["derive_more"], "reference": r["reference"], "verdict": r["verdict"]})).unwrap());
    match judge(&case).verdict {
        Verdict::Violation(_) => {
            println!("VIOLATION property=C06 replay={path}");
            1
        }
        Verdict::Harness(_) => 2,
        Verdict::KnownFinding(k) => {
            println!("KNOWN-FINDING: property=C06 {k}");
            0
        }
        Verdict::Agree => 0,
    }
}

fn main() {
    // a panic inside a formatting call is caught and compared as an outcome; keep stderr quiet
    std::panic::set_hook(Box::new(|_| {}));
    let args: Vec<String> = std::env::args().skip(1).collect();
    let code = match args.first().map(|s| s.as_str()) {
        Some("run") => cmd_run(&args[1..]),
        Some("replay") => cmd_replay(&args[1..]),
        Some("case") => {
            let seed: u64 = arg(&args, "--seed").map(|s| s.parse().unwrap()).unwrap_or(1);
            let index: u64 = arg(&args, "--index").map(|s| s.parse().unwrap()).unwrap_or(0);
            println!("{}", serde_json::to_string_pretty(&case_report(&make_case(seed, index))).unwrap());
            0
        }
        _ => {
            eprintln!("usage: fmtsim run --seed S --cases N [--start I] [--threads T] --out F | replay FILE | case --seed S --index I");
            2
        }
    };
    exit(code);
}
