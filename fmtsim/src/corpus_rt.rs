//! Cursor feeding the constructors of corpus types. Both twins of a type are built
//! from a fresh cursor over the same `Data`, hence from identical values.

use crate::case::Data;
use crate::script::Script;
use std::cell::Cell;

pub struct Cur<'a> {
    d: &'a Data,
    s: Cell<usize>,
    i: Cell<usize>,
    f: Cell<usize>,
    t: Cell<usize>,
    c: Cell<usize>,
}

static EMPTY: Script = Script(Vec::new());
const SSTRS: [&str; 6] = ["", "static", "two\nlines", "q\"uote", "ünï", "tab\t"];

impl<'a> Cur<'a> {
    pub fn new(d: &'a Data) -> Self {
        Cur {
            d,
            s: Cell::new(0),
            i: Cell::new(0),
            f: Cell::new(0),
            t: Cell::new(0),
            c: Cell::new(0),
        }
    }
    fn bump(c: &Cell<usize>) -> usize {
        let v = c.get();
        c.set(v + 1);
        v
    }
    pub fn script_ref(&self) -> &'a Script {
        if self.d.scripts.is_empty() {
            return &EMPTY;
        }
        &self.d.scripts[Self::bump(&self.s) % self.d.scripts.len()]
    }
    /// `&&Script`: the inner reference is leaked (a few bytes per case of the one corpus type using it)
    pub fn script_ref_ref(&self) -> &'a &'a Script {
        Box::leak(Box::new(self.script_ref()))
    }
    pub fn scripts_slice(&self) -> &'a [Script] {
        &self.d.scripts
    }
    pub fn script(&self) -> Script {
        self.script_ref().clone()
    }
    pub fn int(&self) -> i64 {
        if self.d.ints.is_empty() {
            return 0;
        }
        self.d.ints[Self::bump(&self.i) % self.d.ints.len()]
    }
    pub fn float(&self) -> f64 {
        if self.d.floats.is_empty() {
            return 0.0;
        }
        f64::from_bits(self.d.floats[Self::bump(&self.f) % self.d.floats.len()])
    }
    pub fn str_ref(&self) -> &'a str {
        if self.d.strings.is_empty() {
            return "";
        }
        &self.d.strings[Self::bump(&self.t) % self.d.strings.len()]
    }
    pub fn string(&self) -> String {
        self.str_ref().to_string()
    }
    pub fn choice(&self, n: usize) -> usize {
        if self.d.choices.is_empty() || n == 0 {
            return 0;
        }
        self.d.choices[Self::bump(&self.c) % self.d.choices.len()] as usize % n
    }
    pub fn sstr(&self) -> &'static str {
        SSTRS[self.choice(SSTRS.len())]
    }
    pub fn opt_script(&self) -> Option<Script> {
        if self.choice(3) == 0 {
            None
        } else {
            Some(self.script())
        }
    }
    pub fn vec_scripts(&self) -> Vec<Script> {
        (0..self.choice(3)).map(|_| self.script()).collect()
    }
}
