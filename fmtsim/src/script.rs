//! Simulated *foreign parties*: the `Debug` impls of fields.
//!
//! A `Script` is a value whose `Debug::fmt` replays a recorded action list on the
//! `Formatter` it is handed. The action list is the *chunk schedule* — how the
//! party cuts its output into `write_str` / `write_char` / `write_fmt` / `pad`
//! calls, which options it looks at, which builders it nests, and at which step
//! it fails. Scripts are well-behaved parties: the first error is propagated.

use serde::{Deserialize, Serialize};
use std::cell::{Cell, RefCell};
use std::fmt::{self, Debug, Display, Formatter, Write as _};

/// Which implementation the side-dependent actions dispatch to.
#[derive(Clone, Copy, PartialEq, Eq, Debug)]
pub enum Side {
    /// System under test: derive_more's builder / `derive_more::Debug` types.
    Dm,
    /// Reference: core's builders / std's derive.
    Ref,
    /// Reference adjusted by the known-finding defect model KF1 (options reset
    /// to `{:#?}` at every direct field of a positional shape in pretty mode).
    RefAdj,
}

#[derive(Clone, Default, Debug)]
pub struct CaseProbe {
    pub script_depth: u32,
    pub scripts_entered: u32,
    pub fail_fired: u32,
    pub newline_chunk_end_pretty: u32,
    pub newline_mid_chunk_pretty: u32,
    pub empty_chunk: u32,
    pub sut_depth: u32,
    pub sut_depth_max: u32,
    pub sut_calls: u32,
    pub sut_nonexh_pretty: u32,
    pub sut_nonexh_plain: u32,
    pub sut_empty_name_single: u32,
    pub sut_zero_fields: u32,
    pub reset_applied: u32,
    pub echo_nondefault: u32,
    pub lenient_continued: u32,
    pub eval_clock: u32,
    pub armed: bool,
    pub eval_points: u32,
}

thread_local! {
    /// Ill-behaved parties are switched off while the sink has a *transient* fault: that is the one regime in
    /// which the way a correct implementation cuts its output into write calls becomes visible (an error-ignoring
    /// party resumes writing after a failure that hit one particular write call), and a check must not depend on
    /// the cut. Persistent sink faults and failing sub-parties stay in: there the cut cannot show.
    static LENIENT_OK: Cell<bool> = const { Cell::new(true) };
    static SIDE: Cell<Side> = const { Cell::new(Side::Ref) };
    static PROBE: RefCell<CaseProbe> = RefCell::new(CaseProbe::default());
}

pub fn side() -> Side {
    SIDE.with(|s| s.get())
}
pub fn set_lenient_ok(ok: bool) {
    LENIENT_OK.with(|c| c.set(ok));
}
pub fn set_side(s: Side) {
    SIDE.with(|c| c.set(s));
}
pub fn probe_reset() {
    PROBE.with(|p| *p.borrow_mut() = CaseProbe::default());
}
pub fn probe_take() -> CaseProbe {
    PROBE.with(|p| std::mem::take(&mut *p.borrow_mut()))
}
pub fn probe<R>(f: impl FnOnce(&mut CaseProbe) -> R) -> R {
    PROBE.with(|p| f(&mut p.borrow_mut()))
}

/// Called from attribute argument expressions of corpus types (`#[debug("{}", eval_point())]`): tells *when*
/// the expression was evaluated (how many `Bump`s fields have executed so far) and panics if a field armed
/// the trap. Generated code that evaluates arguments earlier or later than std's builder chain does prints
/// another number, or leaves another prefix in the sink when the panic unwinds.
pub fn eval_point() -> u32 {
    let (armed, t) = probe(|p| {
        p.eval_points += 1;
        (p.armed, p.eval_clock)
    });
    if armed {
        panic!("armed attribute argument");
    }
    t
}

/// Defect model KF1 applied on the reference side only when `Side::RefAdj`.
pub struct Reset<'a>(pub &'a dyn Debug);

impl Debug for Reset<'_> {
    fn fmt(&self, f: &mut Formatter<'_>) -> fmt::Result {
        if side() == Side::RefAdj && f.alternate() {
            probe(|p| p.reset_applied += 1);
            write!(f, "{:#?}", self.0)
        } else {
            self.0.fmt(f)
        }
    }
}

/// The positional builder: derive_more's on the `Dm` side, core's otherwise.
pub fn emit_tuple(
    f: &mut Formatter<'_>,
    name: &str,
    fields: &[&dyn Debug],
    non_exhaustive: bool,
) -> fmt::Result {
    probe(|p| {
        p.sut_calls += 1;
        p.sut_depth += 1;
        p.sut_depth_max = p.sut_depth_max.max(p.sut_depth);
        if non_exhaustive {
            if f.alternate() {
                p.sut_nonexh_pretty += 1
            } else {
                p.sut_nonexh_plain += 1
            }
        }
        if name.is_empty() && fields.len() == 1 && !non_exhaustive {
            p.sut_empty_name_single += 1;
        }
        if fields.is_empty() {
            p.sut_zero_fields += 1;
        }
    });
    let r = match side() {
        Side::Dm => {
            let mut t = derive_more::__private::debug_tuple(f, name);
            for x in fields {
                t.field(*x);
            }
            if non_exhaustive {
                t.finish_non_exhaustive()
            } else {
                t.finish()
            }
        }
        Side::Ref | Side::RefAdj => {
            let mut t = f.debug_tuple(name);
            for x in fields {
                t.field(&Reset(*x));
            }
            if non_exhaustive {
                t.finish_non_exhaustive()
            } else {
                t.finish()
            }
        }
    };
    probe(|p| p.sut_depth -= 1);
    r
}

#[derive(Clone, PartialEq, Serialize, Deserialize)]
pub enum Action {
    /// `f.write_str(s)`
    Str(String),
    /// `f.write_char(c)`
    Char(char),
    /// `f.write_fmt(format_args!("{}", s))`
    Fmt(String),
    /// `write!(f, "{}{}", a, b)`: two chunks through one nested `write_fmt`
    Fmt2(String, String),
    /// `f.pad(s)` — honours width / fill / align / precision
    Pad(String),
    /// `f.pad_integral(nonneg, prefix, digits)` — honours sign, `#`, `0`, width
    PadIntegral(bool, String, String),
    /// `Debug::fmt(&i, f)` — honours hex-debug, width, sign, `#`
    Int(i64),
    UInt(u64),
    /// `Debug::fmt(&f64::from_bits(b), f)` — honours precision, sign, width
    Float(u64),
    StrDbg(String),
    CharDbg(char),
    Bool(bool),
    Unit,
    /// writes the options the party can observe
    Echo,
    CoreStruct {
        name: String,
        fields: Vec<(String, Script)>,
        non_exh: bool,
    },
    /// core's tuple builder on every side (control group)
    CoreTuple {
        name: String,
        fields: Vec<Script>,
    },
    CoreList(Vec<Script>),
    CoreSet(Vec<Script>),
    CoreMap(Vec<(Script, Script)>),
    /// `Debug::fmt(&Some(script), f)`
    OptSome(Box<Script>),
    /// `Debug::fmt(&(a, b), f)`
    Pair(Box<Script>, Box<Script>),
    /// the builder under test on the Dm side, core's on the reference sides
    SutTuple {
        name: String,
        fields: Vec<Script>,
        non_exh: bool,
    },
    /// the party fails: `return Err(fmt::Error)`
    Fail,
    /// the party advances the *evaluation clock* (interior state that attribute argument expressions read:
    /// what they print tells when they were evaluated relative to the fields' own `fmt` calls)
    Bump,
    /// the party arms a trap: the next attribute argument expression that is evaluated panics
    Arm,
    /// from here on the party is *ill-behaved*: it keeps going after a failed step.
    /// 1 = returns the first error at the end, 2 = swallows errors and returns Ok
    Lenient(u8),
}

#[derive(Clone, PartialEq, Default, Serialize, Deserialize)]
pub struct Script(pub Vec<Action>);

fn note_chunk(f: &Formatter<'_>, s: &str) {
    probe(|p| {
        if s.is_empty() {
            p.empty_chunk += 1;
        }
        if f.alternate() {
            if s.ends_with('\n') {
                p.newline_chunk_end_pretty += 1;
            }
            if s.trim_end_matches('\n').contains('\n') {
                p.newline_mid_chunk_pretty += 1;
            }
        }
    });
}

impl Action {
    fn run(&self, f: &mut Formatter<'_>) -> fmt::Result {
        match self {
            Action::Str(s) => {
                note_chunk(f, s);
                f.write_str(s)
            }
            Action::Char(c) => {
                let mut b = [0u8; 4];
                note_chunk(f, c.encode_utf8(&mut b));
                f.write_char(*c)
            }
            Action::Fmt(s) => {
                note_chunk(f, s);
                f.write_fmt(format_args!("{}", s))
            }
            Action::Fmt2(a, b) => {
                note_chunk(f, a);
                note_chunk(f, b);
                write!(f, "{}{}", a, b)
            }
            Action::Pad(s) => f.pad(s),
            Action::PadIntegral(nn, pre, digits) => f.pad_integral(*nn, pre, digits),
            Action::Int(i) => Debug::fmt(i, f),
            Action::UInt(u) => Debug::fmt(u, f),
            Action::Float(b) => Debug::fmt(&f64::from_bits(*b), f),
            Action::StrDbg(s) => Debug::fmt(s.as_str(), f),
            Action::CharDbg(c) => Debug::fmt(c, f),
            Action::Bool(b) => Debug::fmt(b, f),
            Action::Unit => Debug::fmt(&(), f),
            Action::Echo => {
                let nondefault = f.width().is_some()
                    || f.precision().is_some()
                    || f.fill() != ' '
                    || f.align().is_some()
                    || f.sign_plus()
                    || f.sign_aware_zero_pad();
                if nondefault {
                    probe(|p| p.echo_nondefault += 1);
                }
                let al = match f.align() {
                    None => '-',
                    Some(fmt::Alignment::Left) => '<',
                    Some(fmt::Alignment::Center) => '^',
                    Some(fmt::Alignment::Right) => '>',
                };
                let s = format!(
                    "[w={:?} p={:?} fill={:?} al={} plus={} minus={} alt={} zero={}]",
                    f.width(),
                    f.precision(),
                    f.fill(),
                    al,
                    f.sign_plus(),
                    f.sign_minus(),
                    f.alternate(),
                    f.sign_aware_zero_pad()
                );
                f.write_str(&s)
            }
            Action::CoreStruct {
                name,
                fields,
                non_exh,
            } => {
                let mut b = f.debug_struct(name);
                for (n, s) in fields {
                    b.field(n, s);
                }
                if *non_exh {
                    b.finish_non_exhaustive()
                } else {
                    b.finish()
                }
            }
            Action::CoreTuple { name, fields } => {
                let mut b = f.debug_tuple(name);
                for s in fields {
                    b.field(s);
                }
                b.finish()
            }
            Action::CoreList(xs) => f.debug_list().entries(xs.iter()).finish(),
            Action::CoreSet(xs) => f.debug_set().entries(xs.iter()).finish(),
            Action::CoreMap(kv) => f
                .debug_map()
                .entries(kv.iter().map(|(k, v)| (k, v)))
                .finish(),
            Action::OptSome(s) => Debug::fmt(&Some(&**s), f),
            Action::Pair(a, b) => Debug::fmt(&(&**a, &**b), f),
            Action::SutTuple {
                name,
                fields,
                non_exh,
            } => {
                let refs: Vec<&dyn Debug> = fields.iter().map(|s| s as &dyn Debug).collect();
                emit_tuple(f, name, &refs, *non_exh)
            }
            Action::Fail => {
                probe(|p| p.fail_fired += 1);
                Err(fmt::Error)
            }
            Action::Lenient(_) => Ok(()),
            Action::Bump => {
                probe(|p| p.eval_clock += 1);
                Ok(())
            }
            Action::Arm => {
                probe(|p| p.armed = true);
                Ok(())
            }
        }
    }

    /// Number of actions in this subtree (for bounds and shrinking).
    pub fn size(&self) -> usize {
        1 + match self {
            Action::CoreStruct { fields, .. } => fields.iter().map(|(_, s)| s.size()).sum(),
            Action::CoreTuple { fields, .. } | Action::SutTuple { fields, .. } => {
                fields.iter().map(|s| s.size()).sum()
            }
            Action::CoreList(xs) | Action::CoreSet(xs) => xs.iter().map(|s| s.size()).sum(),
            Action::CoreMap(kv) => kv.iter().map(|(k, v)| k.size() + v.size()).sum(),
            Action::OptSome(s) => s.size(),
            Action::Pair(a, b) => a.size() + b.size(),
            _ => 0,
        }
    }
}

impl Script {
    pub fn size(&self) -> usize {
        self.0.iter().map(|a| a.size()).sum()
    }
    fn replay(&self, f: &mut Formatter<'_>) -> fmt::Result {
        probe(|p| {
            p.script_depth += 1;
            p.scripts_entered += 1;
        });
        let mut r = Ok(());
        let mut mode = 0u8;
        let mut first_err: Option<fmt::Error> = None;
        for a in &self.0 {
            if let Action::Lenient(k) = a {
                if LENIENT_OK.with(|c| c.get()) {
                    mode = *k;
                }
                continue;
            }
            let step = a.run(f);
            if let Err(e) = step {
                if mode == 0 {
                    r = Err(e);
                    break;
                }
                probe(|p| p.lenient_continued += 1);
                first_err.get_or_insert(e);
            }
        }
        if r.is_ok() && mode == 1 {
            if let Some(e) = first_err {
                r = Err(e);
            }
        }
        probe(|p| p.script_depth -= 1);
        r
    }
}

impl Debug for Script {
    fn fmt(&self, f: &mut Formatter<'_>) -> fmt::Result {
        self.replay(f)
    }
}

impl Display for Script {
    fn fmt(&self, f: &mut Formatter<'_>) -> fmt::Result {
        self.replay(f)
    }
}
