//! Witness inputs of open known findings that show at compile time (known_findings.json). One
//! `// @witness <id> <side>` marker per item; `sd` = std's derive on the identical definition in the identical
//! surroundings (must always compile), `dm` = derive_more's. Generated once by hand from the table in DESIGN.md §7.1.
#![allow(dead_code, unexpected_cfgs)]
// each `dm` witness is compiled on its own (`--cfg 'w="<id>"'`): rustc stops at the first failing phase, so one
// witness's name-resolution error would hide another's borrow-check error

pub mod sd {
    // @witness param-and-ref-param-tuple sd
    pub mod w0 {
        #[derive(::core::fmt::Debug)]
        pub struct A<'a, T>(pub T, pub &'a T);
    }
    // @witness param-and-ref-param-named sd
    pub mod w1 {
        #[derive(::core::fmt::Debug)]
        pub struct B<'a, T> { pub a: Vec<T>, pub b: &'a Vec<T> }
    }
    // @witness two-lifetimes-same-referent sd
    pub mod w2 {
        #[derive(::core::fmt::Debug)]
        pub struct C<'a, 'b, T>(pub &'a T, pub &'b T);
    }
    // @witness param-and-ref-param-enum sd
    pub mod w3 {
        #[derive(::core::fmt::Debug)]
        pub enum D<'a, T> { X(T), Y(&'a T) }
    }
    // @witness two-lifetimes-in-generic-args sd
    pub mod w4 {
        #[derive(::core::fmt::Debug)]
        pub struct E<'a, 'b, T>(pub Option<&'a T>, pub std::cell::Ref<'b, Option<&'b T>>, pub Option<&'b T>);
    }
    // @witness repr-packed-tuple sd
    pub mod w5 {
        #[derive(::core::fmt::Debug)]
        #[repr(packed)] pub struct P1(pub u8, pub u32);
    }
    // @witness repr-packed-named sd
    pub mod w6 {
        #[derive(::core::fmt::Debug)]
        #[repr(C, packed(2))] pub struct P2 { pub a: u8, pub b: u64 }
    }
    // @witness denied-non-snake-case-field sd
    pub mod w7 {
        #![deny(non_snake_case)]
        #[derive(::core::fmt::Debug)]
        #[allow(non_snake_case)] pub struct N1 { pub fooBar: u8 }
    }
    // @witness forbidden-unreachable-code sd
    pub mod w8 {
        #![forbid(unreachable_code)]
        #[derive(::core::fmt::Debug)]
        pub struct F1(pub u8);
    }
    // @witness no-implicit-prelude sd
    pub mod w9 {
        #![no_implicit_prelude]
        #[derive(::core::fmt::Debug)]
        pub struct I1(pub u8, pub u8);
    }
}
pub mod dm {
    // @witness param-and-ref-param-tuple dm
    #[cfg(w = "param-and-ref-param-tuple")]
    pub mod w0 {
        #[derive(::derive_more::Debug)]
        pub struct A<'a, T>(pub T, pub &'a T);
    }
    // @witness param-and-ref-param-named dm
    #[cfg(w = "param-and-ref-param-named")]
    pub mod w1 {
        #[derive(::derive_more::Debug)]
        pub struct B<'a, T> { pub a: Vec<T>, pub b: &'a Vec<T> }
    }
    // @witness two-lifetimes-same-referent dm
    #[cfg(w = "two-lifetimes-same-referent")]
    pub mod w2 {
        #[derive(::derive_more::Debug)]
        pub struct C<'a, 'b, T>(pub &'a T, pub &'b T);
    }
    // @witness param-and-ref-param-enum dm
    #[cfg(w = "param-and-ref-param-enum")]
    pub mod w3 {
        #[derive(::derive_more::Debug)]
        pub enum D<'a, T> { X(T), Y(&'a T) }
    }
    // @witness two-lifetimes-in-generic-args dm
    #[cfg(w = "two-lifetimes-in-generic-args")]
    pub mod w4 {
        #[derive(::derive_more::Debug)]
        pub struct E<'a, 'b, T>(pub Option<&'a T>, pub std::cell::Ref<'b, Option<&'b T>>, pub Option<&'b T>);
    }
    // @witness repr-packed-tuple dm
    #[cfg(w = "repr-packed-tuple")]
    pub mod w5 {
        #[derive(::derive_more::Debug)]
        #[repr(packed)] pub struct P1(pub u8, pub u32);
    }
    // @witness repr-packed-named dm
    #[cfg(w = "repr-packed-named")]
    pub mod w6 {
        #[derive(::derive_more::Debug)]
        #[repr(C, packed(2))] pub struct P2 { pub a: u8, pub b: u64 }
    }
    // @witness denied-non-snake-case-field dm
    #[cfg(w = "denied-non-snake-case-field")]
    pub mod w7 {
        #![deny(non_snake_case)]
        #[derive(::derive_more::Debug)]
        #[allow(non_snake_case)] pub struct N1 { pub fooBar: u8 }
    }
    // @witness forbidden-unreachable-code dm
    #[cfg(w = "forbidden-unreachable-code")]
    pub mod w8 {
        #![forbid(unreachable_code)]
        #[derive(::derive_more::Debug)]
        pub struct F1(pub u8);
    }
    // @witness no-implicit-prelude dm
    #[cfg(w = "no-implicit-prelude")]
    pub mod w9 {
        #![no_implicit_prelude]
        #[derive(::derive_more::Debug)]
        pub struct I1(pub u8, pub u8);
    }
}
