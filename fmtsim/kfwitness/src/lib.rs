//! Witness inputs of open known findings that show at compile time. One `// @witness <id> <side>` marker per
//! item; `sd` = std's derive on the identical definition (must always compile), `dm` = derive_more's.
#![allow(dead_code)]

pub mod sd {
    // @witness param-and-ref-param-tuple sd
    #[derive(Debug)]
    pub struct A<'a, T>(pub T, pub &'a T);
    // @witness param-and-ref-param-named sd
    #[derive(Debug)]
    pub struct B<'a, T> { pub a: Vec<T>, pub b: &'a Vec<T> }
    // @witness two-lifetimes-same-referent sd
    #[derive(Debug)]
    pub struct C<'a, 'b, T>(pub &'a T, pub &'b T);
    // @witness param-and-ref-param-enum sd
    #[derive(Debug)]
    pub enum D<'a, T> { X(T), Y(&'a T) }
    // @witness two-lifetimes-in-generic-args sd
    #[derive(Debug)]
    pub struct E<'a, 'b, T>(pub Option<&'a T>, pub std::cell::Ref<'b, Option<&'b T>>, pub Option<&'b T>);
}

pub mod dm {
    // @witness param-and-ref-param-tuple dm
    #[derive(derive_more::Debug)]
    pub struct A<'a, T>(pub T, pub &'a T);
    // @witness param-and-ref-param-named dm
    #[derive(derive_more::Debug)]
    pub struct B<'a, T> { pub a: Vec<T>, pub b: &'a Vec<T> }
    // @witness two-lifetimes-same-referent dm
    #[derive(derive_more::Debug)]
    pub struct C<'a, 'b, T>(pub &'a T, pub &'b T);
    // @witness param-and-ref-param-enum dm
    #[derive(derive_more::Debug)]
    pub enum D<'a, T> { X(T), Y(&'a T) }
    // @witness two-lifetimes-in-generic-args dm
    #[derive(derive_more::Debug)]
    pub struct E<'a, 'b, T>(pub Option<&'a T>, pub std::cell::Ref<'b, Option<&'b T>>, pub Option<&'b T>);
}
