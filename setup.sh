#!/bin/sh
# MANIFEST.setup_cmd — offline build of the engines (filled in as engines land).
set -e
cd "$(dirname "$0")"
exit 0
