#!/bin/sh
# MANIFEST.setup_cmd — offline build of the engines from files on disk only.
set -e
cd "$(dirname "$0")"
export CARGO_NET_OFFLINE=true
mkdir -p .build replays evidence
# Engine B (fmtsim): generate tables, build against /repo's working tree
python3 fmtsim/gen.py --corpus-seed 1 --random-types 140 >/dev/null
cp /repo/Cargo.lock fmtsim/Cargo.lock
(cd fmtsim && cargo build --release --offline --target-dir "$PWD/../.build/fmtsim")
# Engine A (sessim)
if [ -x sessim/setup.sh ]; then sessim/setup.sh; fi
