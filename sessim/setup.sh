#!/bin/sh
# builds the environment shim and Engine A (sessim) against /repo's working tree, offline
set -e
cd "$(dirname "$0")"
export CARGO_NET_OFFLINE=true
mkdir -p ../.build
gcc -O2 -shared -fPIC -o ../.build/libverif_env.so shim/entropy.c -lpthread -ldl
python3 gen_shadow.py >/dev/null
cp /repo/Cargo.lock Cargo.lock
cargo build --release --offline --target-dir "$PWD/../.build/sessim"
(cd a3host && cp /repo/Cargo.lock Cargo.lock && cargo +nightly build --offline --target-dir "$PWD/../../.build/a3")
