/* libverif_env.so — LD_PRELOAD interposer that puts the *environment's* sources of
 * nondeterminism behind seams the simulator owns:
 *   getrandom()/getentropy()  -> SplitMix64 stream keyed by VERIF_ENTROPY_SEED
 *                                (std documents the weak `getrandom` symbol for exactly this)
 *   clock_gettime()/gettimeofday()/time() -> simulated clock: VERIF_CLOCK_BASE seconds, + VERIF_CLOCK_STEP_NS (default 1000)
 *                                per call, and a jump of J ns at every Nth call (VERIF_CLOCK_JUMP=N:J)
 *                                (only when VERIF_CLOCK_BASE is set; otherwise the real clock)
 *   getpid()                  -> VERIF_FAKE_PID (if set)
 *   getenv()/secure_getenv()  -> passed through, but the names asked for are recorded
 * Calls are counted from the moment the process asks for the variable VERIF_MARK_START (the
 * session does that right before its first request, so loader / libc / runtime start-up noise
 * is excluded); the counts and the names are printed to stderr at exit when VERIF_SHIM_REPORT=1,
 * so a run can tell whether the system under simulation ever consulted these seams, and the
 * simulator can give seeded values to exactly the variables the code reads.
 */
#define _GNU_SOURCE
#include <stdint.h>
#include <stdlib.h>
#include <string.h>
#include <stdio.h>
#include <sys/types.h>
#include <sys/time.h>
#include <time.h>
#include <unistd.h>
#include <pthread.h>
#include <dlfcn.h>
#include <sys/syscall.h>
#include <sys/utsname.h>

static pthread_mutex_t mu = PTHREAD_MUTEX_INITIALIZER;
static int inited = 0;
static uint64_t state = 0;
static uint64_t clock_ticks = 0, clock_ns = 0, clock_step = 1000, jump_every = 0, jump_ns = 0;
static uint64_t clock_base = 1700000000ULL;
static long fake_pid = 0;
static int clock_on = 0;
static unsigned long n_getrandom = 0, n_clock = 0, n_pid = 0, n_getenv = 0, n_threads = 0;
static int marked = 0;
#define MAX_NAMES 64
static char names[MAX_NAMES][64];
static int n_names = 0;

static void report(void) {
    const char *r = getenv("VERIF_SHIM_REPORT");
    if (r && r[0] == '1') {
        fprintf(stderr, "VERIF_SHIM getrandom=%lu clock=%lu getpid=%lu getenv=%lu threads=%lu names=", n_getrandom, n_clock, n_pid, n_getenv, n_threads);
        for (int i = 0; i < n_names; i++) fprintf(stderr, "%s%s", i ? "," : "", names[i]);
        fprintf(stderr, "\n");
    }
}

static void init_locked(void) {
    if (inited) return;
    inited = 1;
    const char *s = getenv("VERIF_ENTROPY_SEED");
    state = s ? strtoull(s, NULL, 10) : 0;
    state ^= 0x5851F42D4C957F2DULL;
    const char *c = getenv("VERIF_CLOCK_BASE");
    if (c) { clock_base = strtoull(c, NULL, 10); clock_on = 1; }
    const char *st = getenv("VERIF_CLOCK_STEP_NS");
    if (st) clock_step = strtoull(st, NULL, 10);
    const char *j = getenv("VERIF_CLOCK_JUMP");
    if (j) { char *e = 0; jump_every = strtoull(j, &e, 10); if (e && *e == ':') jump_ns = strtoull(e + 1, NULL, 10); }
    const char *p = getenv("VERIF_FAKE_PID");
    if (p) fake_pid = strtol(p, NULL, 10);
    atexit(report);
}

__attribute__((constructor)) static void shim_loaded(void) {
    pthread_mutex_lock(&mu);
    init_locked();
    pthread_mutex_unlock(&mu);
}

static uint64_t next_locked(void) {
    state += 0x9E3779B97F4A7C15ULL;
    uint64_t z = state;
    z = (z ^ (z >> 30)) * 0xBF58476D1CE4E5B9ULL;
    z = (z ^ (z >> 27)) * 0x94D049BB133111EBULL;
    return z ^ (z >> 31);
}

ssize_t getrandom(void *buf, size_t len, unsigned int flags) {
    (void)flags;
    pthread_mutex_lock(&mu);
    init_locked();
    if (marked) n_getrandom++;
    unsigned char *p = (unsigned char *)buf;
    size_t i = 0;
    while (i < len) {
        uint64_t v = next_locked();
        size_t k = len - i < 8 ? len - i : 8;
        memcpy(p + i, &v, k);
        i += k;
    }
    pthread_mutex_unlock(&mu);
    return (ssize_t)len;
}

int getentropy(void *buf, size_t len) {
    return getrandom(buf, len, 0) == (ssize_t)len ? 0 : -1;
}

static void sim_now(uint64_t *sec, uint64_t *nsec) {
    pthread_mutex_lock(&mu);
    init_locked();
    if (marked) n_clock++;
    clock_ticks++;
    clock_ns += clock_step;
    if (jump_every && clock_ticks % jump_every == 0) clock_ns += jump_ns;
    *sec = clock_base + clock_ns / 1000000000ULL;
    *nsec = clock_ns % 1000000000ULL;
    pthread_mutex_unlock(&mu);
}

static int clock_enabled(void) {
    pthread_mutex_lock(&mu);
    init_locked();
    int on = clock_on;
    if (marked && !on) n_clock++;
    pthread_mutex_unlock(&mu);
    return on;
}

int clock_gettime(clockid_t id, struct timespec *ts) {
    if (!clock_enabled()) return (int)syscall(SYS_clock_gettime, id, ts);
    uint64_t s, n;
    sim_now(&s, &n);
    if (ts) { ts->tv_sec = (time_t)s; ts->tv_nsec = (long)n; }
    return 0;
}

int gettimeofday(struct timeval *tv, void *tz) {
    if (!clock_enabled()) return (int)syscall(SYS_gettimeofday, tv, tz);
    uint64_t s, n;
    sim_now(&s, &n);
    if (tv) { tv->tv_sec = (time_t)s; tv->tv_usec = (suseconds_t)(n / 1000); }
    return 0;
}

time_t time(time_t *t) {
    if (!clock_enabled()) { struct timespec ts; syscall(SYS_clock_gettime, CLOCK_REALTIME, &ts); if (t) *t = ts.tv_sec; return ts.tv_sec; }
    uint64_t s, n;
    sim_now(&s, &n);
    if (t) *t = (time_t)s;
    return (time_t)s;
}

pid_t getpid(void) {
    pthread_mutex_lock(&mu);
    init_locked();
    if (marked) n_pid++;
    long p = fake_pid;
    pthread_mutex_unlock(&mu);
    if (p) return (pid_t)p;
    return (pid_t)syscall(SYS_getpid);
}

static char *(*real_getenv)(const char *) = 0;

static char *env_seam(const char *name) {
    if (!real_getenv) real_getenv = (char *(*)(const char *))dlsym(RTLD_NEXT, "getenv");
    if (!real_getenv) return 0;
    if (name && strcmp(name, "VERIF_MARK_START") == 0) {
        pthread_mutex_lock(&mu);
        marked = 1;
        pthread_mutex_unlock(&mu);
        return 0;
    }
    if (name && marked && strncmp(name, "VERIF_", 6) != 0) {
        pthread_mutex_lock(&mu);
        n_getenv++;
        int known = 0;
        for (int i = 0; i < n_names; i++) if (strncmp(names[i], name, 63) == 0) { known = 1; break; }
        if (!known && n_names < MAX_NAMES) { strncpy(names[n_names], name, 63); names[n_names][63] = 0; n_names++; }
        pthread_mutex_unlock(&mu);
    }
    return real_getenv(name);
}

char *getenv(const char *name) { return env_seam(name); }
char *secure_getenv(const char *name) { return env_seam(name); }

/* host name and user id: seeded when VERIF_HOSTNAME / VERIF_FAKE_UID are set */
int gethostname(char *name, size_t len) {
    const char *h = real_getenv ? real_getenv("VERIF_HOSTNAME") : 0;
    if (!real_getenv) { real_getenv = (char *(*)(const char *))dlsym(RTLD_NEXT, "getenv"); h = real_getenv ? real_getenv("VERIF_HOSTNAME") : 0; }
    if (!h) {
        struct utsname u;
        if (syscall(SYS_uname, &u) != 0) return -1;
        h = u.nodename;
        strncpy(name, h, len);
        if (len) name[len - 1] = 0;
        return 0;
    }
    strncpy(name, h, len);
    if (len) name[len - 1] = 0;
    return 0;
}

int uname(struct utsname *u) {
    int r = (int)syscall(SYS_uname, u);
    if (!real_getenv) real_getenv = (char *(*)(const char *))dlsym(RTLD_NEXT, "getenv");
    const char *h = real_getenv ? real_getenv("VERIF_HOSTNAME") : 0;
    if (r == 0 && h) { strncpy(u->nodename, h, sizeof(u->nodename) - 1); u->nodename[sizeof(u->nodename) - 1] = 0; }
    return r;
}

static long fake_uid(void) {
    if (!real_getenv) real_getenv = (char *(*)(const char *))dlsym(RTLD_NEXT, "getenv");
    const char *v = real_getenv ? real_getenv("VERIF_FAKE_UID") : 0;
    return v ? strtol(v, NULL, 10) : -1;
}
uid_t getuid(void) { long f = fake_uid(); return f >= 0 ? (uid_t)f : (uid_t)syscall(SYS_getuid); }
uid_t geteuid(void) { long f = fake_uid(); return f >= 0 ? (uid_t)f : (uid_t)syscall(SYS_geteuid); }

/* threads created after the start mark: the session's own workers are known to the simulator; any
 * surplus was created by the code under simulation */
static int (*real_pthread_create)(pthread_t *, const pthread_attr_t *, void *(*)(void *), void *) = 0;
int pthread_create(pthread_t *t, const pthread_attr_t *a, void *(*f)(void *), void *arg) {
    if (!real_pthread_create)
        real_pthread_create = (int (*)(pthread_t *, const pthread_attr_t *, void *(*)(void *), void *))dlsym(RTLD_NEXT, "pthread_create");
    pthread_mutex_lock(&mu);
    if (marked) n_threads++;
    pthread_mutex_unlock(&mu);
    return real_pthread_create(t, a, f, arg);
}
