/* libverif_env.so — LD_PRELOAD interposer that puts the *environment's* sources of
 * nondeterminism behind seams the simulator owns:
 *   getrandom()/getentropy()  -> SplitMix64 stream keyed by VERIF_ENTROPY_SEED
 *                                (std documents the weak `getrandom` symbol for exactly this)
 *   clock_gettime()/gettimeofday()/time() -> simulated clock: VERIF_CLOCK_BASE seconds, +1us per call
 *                                (only when VERIF_CLOCK_BASE is set; otherwise the real clock)
 *   getpid()                  -> VERIF_FAKE_PID (if set)
 * Every call is counted; the counts are printed to stderr at exit when VERIF_SHIM_REPORT=1,
 * so a run can tell whether the system under simulation ever consulted them.
 */
#define _GNU_SOURCE
#include <stdint.h>
#include <stdlib.h>
#include <string.h>
#include <stdio.h>
#include <sys/types.h>
#include <sys/time.h>
#include <time.h>
#include <unistd.h>
#include <pthread.h>
#include <dlfcn.h>
#include <sys/syscall.h>

static pthread_mutex_t mu = PTHREAD_MUTEX_INITIALIZER;
static int inited = 0;
static uint64_t state = 0;
static uint64_t clock_ticks = 0;
static uint64_t clock_base = 1700000000ULL;
static long fake_pid = 0;
static int clock_on = 0;
static unsigned long n_getrandom = 0, n_clock = 0, n_pid = 0;

static void report(void) {
    const char *r = getenv("VERIF_SHIM_REPORT");
    if (r && r[0] == '1')
        fprintf(stderr, "VERIF_SHIM getrandom=%lu clock=%lu getpid=%lu\n", n_getrandom, n_clock, n_pid);
}

static void init_locked(void) {
    if (inited) return;
    inited = 1;
    const char *s = getenv("VERIF_ENTROPY_SEED");
    state = s ? strtoull(s, NULL, 10) : 0;
    state ^= 0x5851F42D4C957F2DULL;
    const char *c = getenv("VERIF_CLOCK_BASE");
    if (c) { clock_base = strtoull(c, NULL, 10); clock_on = 1; }
    const char *p = getenv("VERIF_FAKE_PID");
    if (p) fake_pid = strtol(p, NULL, 10);
    atexit(report);
}

static uint64_t next_locked(void) {
    state += 0x9E3779B97F4A7C15ULL;
    uint64_t z = state;
    z = (z ^ (z >> 30)) * 0xBF58476D1CE4E5B9ULL;
    z = (z ^ (z >> 27)) * 0x94D049BB133111EBULL;
    return z ^ (z >> 31);
}

ssize_t getrandom(void *buf, size_t len, unsigned int flags) {
    (void)flags;
    pthread_mutex_lock(&mu);
    init_locked();
    n_getrandom++;
    unsigned char *p = (unsigned char *)buf;
    size_t i = 0;
    while (i < len) {
        uint64_t v = next_locked();
        size_t k = len - i < 8 ? len - i : 8;
        memcpy(p + i, &v, k);
        i += k;
    }
    pthread_mutex_unlock(&mu);
    return (ssize_t)len;
}

int getentropy(void *buf, size_t len) {
    return getrandom(buf, len, 0) == (ssize_t)len ? 0 : -1;
}

static void sim_now(uint64_t *sec, uint64_t *nsec) {
    pthread_mutex_lock(&mu);
    init_locked();
    n_clock++;
    clock_ticks++;
    *sec = clock_base + clock_ticks / 1000000ULL;
    *nsec = (clock_ticks % 1000000ULL) * 1000ULL;
    pthread_mutex_unlock(&mu);
}

static int clock_enabled(void) {
    pthread_mutex_lock(&mu);
    init_locked();
    int on = clock_on;
    pthread_mutex_unlock(&mu);
    return on;
}

int clock_gettime(clockid_t id, struct timespec *ts) {
    if (!clock_enabled()) return (int)syscall(SYS_clock_gettime, id, ts);
    uint64_t s, n;
    sim_now(&s, &n);
    if (ts) { ts->tv_sec = (time_t)s; ts->tv_nsec = (long)n; }
    return 0;
}

int gettimeofday(struct timeval *tv, void *tz) {
    if (!clock_enabled()) return (int)syscall(SYS_gettimeofday, tv, tz);
    uint64_t s, n;
    sim_now(&s, &n);
    if (tv) { tv->tv_sec = (time_t)s; tv->tv_usec = (suseconds_t)(n / 1000); }
    return 0;
}

time_t time(time_t *t) {
    if (!clock_enabled()) { struct timespec ts; syscall(SYS_clock_gettime, CLOCK_REALTIME, &ts); if (t) *t = ts.tv_sec; return ts.tv_sec; }
    uint64_t s, n;
    sim_now(&s, &n);
    if (t) *t = (time_t)s;
    return (time_t)s;
}

pid_t getpid(void) {
    pthread_mutex_lock(&mu);
    init_locked();
    n_pid++;
    long p = fake_pid;
    pthread_mutex_unlock(&mu);
    if (p) return (pid_t)p;
    return (pid_t)syscall(SYS_getpid);
}
