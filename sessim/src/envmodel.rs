//! Model of the environment a proc-macro really runs in: rustc started by cargo (or a
//! rust-analyzer proc-macro server) — the variables cargo sets, the user's manifest on disk, the
//! name of the host executable. The simulator draws a seeded environment per process; the
//! pristine reference process has none of it.

use crate::rng::Rng;

/// Variables cargo / rustup / CI set for compiler processes, with realistic values.
pub const CARGO_VARS: &[(&str, &[&str])] = &[
    ("CARGO_PKG_NAME", &["demo", "my-crate", "derive_more", "x"]),
    ("CARGO_CRATE_NAME", &["demo", "my_crate", "build_script_build"]),
    ("CARGO_PKG_VERSION", &["0.1.0", "1.2.3-beta.1", "2.0.1", "0.0.0"]),
    ("CARGO_PKG_VERSION_MAJOR", &["0", "1", "2"]),
    ("CARGO_PKG_VERSION_MINOR", &["0", "1", "99"]),
    ("CARGO_PKG_VERSION_PATCH", &["0", "1"]),
    ("CARGO_PKG_VERSION_PRE", &["", "beta.1"]),
    ("CARGO_PKG_RUST_VERSION", &["", "1.56", "1.65.0", "1.75", "1.75.0", "1.80", "1.81", "1.81.0", "1.85", "1.90.0", "2.0"]),
    ("CARGO_PKG_AUTHORS", &["", "A <a@b.c>", "A <a@b.c>:B <b@b.c>"]),
    ("CARGO_PKG_DESCRIPTION", &["", "a crate"]),
    ("CARGO_PKG_LICENSE", &["MIT", "MIT OR Apache-2.0"]),
    ("CARGO_PKG_REPOSITORY", &["", "https://example.com/r"]),
    ("CARGO_PRIMARY_PACKAGE", &["1"]),
    ("CARGO_BIN_NAME", &["demo"]),
    ("CARGO", &["/usr/bin/cargo", "/root/.cargo/bin/cargo"]),
    ("RUSTC", &["rustc", "/usr/bin/rustc"]),
    ("RUSTDOC", &["rustdoc"]),
    ("RUSTUP_TOOLCHAIN", &["stable-x86_64-unknown-linux-gnu", "nightly-x86_64-unknown-linux-gnu", "1.75.0-x86_64-unknown-linux-gnu"]),
    ("RUSTC_WRAPPER", &["", "sccache"]),
    ("RUSTC_WORKSPACE_WRAPPER", &["", "clippy-driver"]),
    ("RUSTC_BOOTSTRAP", &["0", "1"]),
    ("RUSTFLAGS", &["", "-Cdebuginfo=2", "--cfg foo -Copt-level=3"]),
    ("CARGO_ENCODED_RUSTFLAGS", &["", "-Cdebuginfo=2\u{1f}--cfg\u{1f}foo"]),
    ("CARGO_INCREMENTAL", &["0", "1"]),
    ("CARGO_TARGET_DIR", &["target", "/tmp/target"]),
    ("CARGO_HOME", &["/root/.cargo"]),
    ("CARGO_MAKEFLAGS", &["-j --jobserver-fds=8,9"]),
    ("PROFILE", &["debug", "release"]),
    ("OPT_LEVEL", &["0", "1", "2", "3", "s", "z"]),
    ("DEBUG", &["true", "false", "0", "2"]),
    ("TARGET", &["x86_64-unknown-linux-gnu", "wasm32-unknown-unknown", "thumbv7em-none-eabihf", "aarch64-apple-darwin"]),
    ("HOST", &["x86_64-unknown-linux-gnu", "aarch64-apple-darwin"]),
    ("NUM_JOBS", &["1", "16"]),
    ("CARGO_CFG_TARGET_OS", &["linux", "windows", "none", "macos"]),
    ("CARGO_CFG_TARGET_ARCH", &["x86_64", "wasm32", "arm"]),
    ("CARGO_CFG_TARGET_POINTER_WIDTH", &["64", "32", "16"]),
    ("CARGO_CFG_PANIC", &["unwind", "abort"]),
    ("CARGO_CFG_DEBUG_ASSERTIONS", &[""]),
    ("CARGO_FEATURE_STD", &["1"]),
    ("CARGO_FEATURE_FULL", &["1"]),
    ("CARGO_FEATURE_DEBUG", &["1"]),
    ("RUST_LOG", &["debug", "derive_more=trace", "off"]),
    ("RUST_BACKTRACE", &["0", "1", "full"]),
    ("RUST_MIN_STACK", &["8388608"]),
    ("CI", &["true", "1"]),
    ("GITHUB_ACTIONS", &["true"]),
    ("DOCS_RS", &["1"]),
    ("NO_COLOR", &["1"]),
    ("CLICOLOR_FORCE", &["1"]),
    ("TERM", &["xterm-256color", "dumb"]),
    ("USER", &["root", "alice"]),
    ("LANG", &["C", "en_US.UTF-8", "tr_TR.UTF-8", "ja_JP.eucJP"]),
    ("LC_ALL", &["C", "tr_TR.UTF-8"]),
    ("TZ", &["UTC", "Asia/Kathmandu", "America/St_Johns"]),
    ("SOURCE_DATE_EPOCH", &["0", "315532800", "1700000000"]),
];

/// Manifests a proc-macro may find on disk (cwd = workspace root under cargo; `CARGO_MANIFEST_DIR`).
pub const MANIFESTS: &[&str] = &[
    "[package]\nname = \"demo\"\nversion = \"0.1.0\"\nedition = \"2021\"\n\n[dependencies]\nderive_more = { version = \"2\", features = [\"full\"] }\n",
    "[package]\nname = \"demo\"\nversion = \"0.1.0\"\nedition = \"2021\"\n\n[dependencies]\nmore = { package = \"derive_more\", version = \"2\", features = [\"full\"] }\n",
    "[workspace]\nmembers = [\"a\", \"b\"]\nresolver = \"2\"\n\n[workspace.dependencies]\nderive_more = \"2\"\n",
    "[package]\nname = \"x\"\nversion = \"1.2.3\"\nedition = \"2018\"\nrust-version = \"1.81\"\n\n[dependencies.dm]\npackage = \"derive_more\"\nversion = \"2\"\ndefault-features = false\n",
    "[package]\nname = \"y\"\nversion = \"0.0.1\"\nrust-version = \"1.56\"\n\n[dev-dependencies]\nderive_more = { path = \"../derive_more\" }\n\n[features]\ndefault = [\"std\"]\nstd = []\n",
    "",
];

/// Executables that load proc-macro dylibs.
pub const HOSTS: &[&str] = &["rustc", "rust-analyzer-proc-macro-srv", "rust-analyzer", "rustdoc", "clippy-driver", "cargo-expand", "miri"];

pub const GENERIC_VALUES: &[&str] = &["", "1", "0", "true", "false", "yes", "on", "off", "debug", "release", "2", "x"];

/// Seeded environment variables: a mode (bare / cargo-like / everything), then per-variable draws.
/// `discovered`: names the code was seen asking for, each with its own value candidates (from the
/// cargo table when known, else literals found near the name in the source, else generic).
pub fn draw_vars(r: &mut Rng, discovered: &[(String, Vec<String>)]) -> Vec<(String, String)> {
    let mut v: Vec<(String, String)> = Vec::new();
    let mode = r.below(4); // 0 bare, 1-2 cargo-like (half of the table), 3 everything
    if mode > 0 {
        for (name, vals) in CARGO_VARS {
            let take = match mode {
                3 => true,
                _ => r.chance(1, 2),
            };
            if take {
                v.push((name.to_string(), r.pick(vals).to_string()));
            }
        }
    }
    // what the code actually reads is varied in every mode, bare included
    for (name, cands) in discovered {
        if r.chance(3, 4) {
            let val = if !cands.is_empty() && r.chance(3, 4) { r.pick(cands).clone() } else { r.pick(GENERIC_VALUES).to_string() };
            v.retain(|(n, _)| n != name);
            v.push((name.clone(), val));
        } else {
            v.retain(|(n, _)| n != name);
        }
    }
    // an unrelated variable whose value is not valid UTF-8 (legacy locales, binary blobs): U+E9FF stands for
    // the single byte 0xE9 and is substituted when the process is started
    if mode > 0 && r.chance(1, 4) {
        v.push((r.pick(&["LEGACY_LATIN1_LABEL", "LESSOPEN_BLOB", "X"]).to_string(), format!("caf\u{e9ff}{}", r.below(10))));
    }
    // the order of the environment block (what `std::env::vars()` iterates in) is seeded, too
    r.shuffle(&mut v);
    // the environment block sits above the stack: its size displaces every stack address
    let pad = *r.pick(&[0usize, 1, 7, 64, 333, 4096, 20000]);
    if pad > 0 {
        v.push(("VERIF_PAD".into(), "x".repeat(pad)));
    }
    v
}

/// Candidate values for a variable the code reads: the cargo table's, plus short string literals that
/// occur near the variable's name in the source under test (what the code is likely to compare with).
pub fn candidates(name: &str, repo: &str) -> Vec<String> {
    let mut out: Vec<String> = Vec::new();
    if let Some((_, vals)) = CARGO_VARS.iter().find(|(n, _)| *n == name) {
        out.extend(vals.iter().map(|s| s.to_string()));
    }
    let mut files = Vec::new();
    collect_rs(&std::path::Path::new(repo).join("impl/src"), &mut files);
    collect_rs(&std::path::Path::new(repo).join("src"), &mut files);
    let needle = format!("\"{name}\"");
    for f in files {
        let Ok(text) = std::fs::read_to_string(&f) else { continue };
        let lines: Vec<&str> = text.lines().collect();
        for (i, l) in lines.iter().enumerate() {
            if !l.contains(&needle) {
                continue;
            }
            let lo = i.saturating_sub(40);
            let hi = (i + 40).min(lines.len());
            for l2 in &lines[lo..hi] {
                for lit in string_literals(l2) {
                    if !lit.is_empty() && lit.len() <= 32 && lit != name && !out.contains(&lit) {
                        out.push(lit);
                    }
                }
            }
        }
    }
    out
}

fn collect_rs(dir: &std::path::Path, out: &mut Vec<std::path::PathBuf>) {
    let mut entries: Vec<_> = match std::fs::read_dir(dir) {
        Ok(r) => r.filter_map(|e| e.ok()).map(|e| e.path()).collect(),
        Err(_) => return,
    };
    entries.sort();
    for p in entries {
        if p.is_dir() {
            collect_rs(&p, out);
        } else if p.extension().map_or(false, |e| e == "rs") {
            out.push(p);
        }
    }
}

/// Plain `"..."` literals on one source line (no escapes handled beyond `\"`): good enough for a dictionary.
fn string_literals(line: &str) -> Vec<String> {
    let mut out = Vec::new();
    let b: Vec<char> = line.chars().collect();
    let mut i = 0;
    while i < b.len() {
        if b[i] == '"' {
            let mut j = i + 1;
            let mut s = String::new();
            while j < b.len() && b[j] != '"' {
                if b[j] == '\\' && j + 1 < b.len() {
                    j += 1;
                }
                s.push(b[j]);
                j += 1;
            }
            if j < b.len() {
                out.push(s);
            }
            i = j + 1;
        } else {
            i += 1;
        }
    }
    out
}
