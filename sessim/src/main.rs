mod drive;
mod envmodel;
mod rng;
mod session;
mod workload;

use drive::{Corpus, Ctx, RefCache, Replay};
use serde_json::{json, Value};
use std::sync::Arc;

fn arg<'a>(args: &'a [String], key: &str) -> Option<&'a str> {
    args.iter().position(|a| a == key).and_then(|i| args.get(i + 1)).map(|s| s.as_str())
}

fn ctx(args: &[String]) -> Ctx {
    Ctx {
        exe: std::env::current_exe().unwrap().to_string_lossy().to_string(),
        shim: arg(args, "--shim").unwrap_or("/verif/.build/libverif_env.so").to_string(),
        tmp_root: arg(args, "--tmp-root").unwrap_or("/verif/.build/sessim-tmp").to_string(),
        counter: std::sync::atomic::AtomicU64::new(0),
        ref_exe: arg(args, "--ref-exe").map(|s| s.to_string()),
        racy: std::sync::atomic::AtomicU64::new(0),
    }
}

fn corpus(repo: &str) -> (Corpus, Value) {
    let derives: Vec<&'static str> = dm_shadow::DERIVES.to_vec();
    let h = workload::harvest(repo, &derives);
    let info = json!({"files": h.files, "files_unparsed": h.files_unparsed, "items_with_derive": h.items, "harvested_keys": h.keys.len(),
                      "hand_written_fault_keys": workload::fault_keys().len(), "derives": derives.len()});
    // group by (derive, first identifier after struct/enum/union)
    let mut groups: std::collections::BTreeMap<(String, String), Vec<usize>> = Default::default();
    for (i, k) in h.keys.iter().enumerate() {
        let toks: Vec<&str> = k.item.split_whitespace().collect();
        if let Some(p) = toks.iter().position(|t| matches!(*t, "struct" | "enum" | "union")) {
            if let Some(name) = toks.get(p + 1) {
                groups.entry((k.derive.clone(), name.to_string())).or_default().push(i);
            }
        }
    }
    let collisions: Vec<Vec<usize>> = groups.into_values().filter(|g| g.len() >= 2).collect();
    let mut by_item: std::collections::BTreeMap<&str, Vec<usize>> = Default::default();
    for (i, k) in h.keys.iter().enumerate() {
        by_item.entry(k.item.as_str()).or_default().push(i);
    }
    let item_groups: Vec<Vec<usize>> = by_item.into_values().filter(|g| g.len() >= 2).collect();
    let mut by_name: std::collections::BTreeMap<String, Vec<usize>> = Default::default();
    for (i, k) in h.keys.iter().enumerate() {
        let toks: Vec<&str> = k.item.split_whitespace().collect();
        if let Some(p) = toks.iter().position(|t| matches!(*t, "struct" | "enum" | "union")) {
            if let Some(name) = toks.get(p + 1) {
                by_name.entry(name.to_string()).or_default().push(i);
            }
        }
    }
    let name_groups: Vec<Vec<usize>> = by_name.into_values().filter(|g| g.len() >= 2).collect();
    let info = json!({"files": info["files"], "files_unparsed": info["files_unparsed"], "items_with_derive": info["items_with_derive"],
                      "harvested_keys": info["harvested_keys"], "hand_written_fault_keys": info["hand_written_fault_keys"], "derives": info["derives"],
                      "name_collision_groups": collisions.len()});
    (
        Corpus {
            collisions,
            item_groups,
            name_groups,
            env_names: vec![],
            base: h.keys,
            faults: workload::fault_keys(),
            derives,
        },
        info,
    )
}

fn cmd_drive(args: &[String]) -> i32 {
    let seed: u64 = arg(args, "--seed").map(|s| s.parse().unwrap()).unwrap_or(1);
    let n: u64 = arg(args, "--sessions").map(|s| s.parse().unwrap()).unwrap_or(96);
    let start: u64 = arg(args, "--start").map(|s| s.parse().unwrap()).unwrap_or(0);
    let jobs: usize = arg(args, "--jobs").map(|s| s.parse().unwrap()).unwrap_or(16);
    let selfcheck: u64 = arg(args, "--selfcheck-every").map(|s| s.parse().unwrap()).unwrap_or(1);
    let repo = arg(args, "--repo").unwrap_or("/repo").to_string();
    let out = arg(args, "--out").unwrap_or("sessim-stats.json").to_string();
    let replay_dir = arg(args, "--replay-dir").unwrap_or("/verif/replays").to_string();
    let t0 = std::time::Instant::now(); // wall time for the evidence file only
    let ctx = Arc::new(ctx(args));
    let (corpus, hinfo) = corpus(&repo);
    if corpus.base.len() < 50 {
        eprintln!("sessim: harvest found only {} keys under {repo}/tests", corpus.base.len());
        return 2;
    }
    // discovery pre-pass: which environment variables do the expanders ask for? (none, on the pinned tree)
    let mut corpus = corpus;
    {
        let pre = drive::run_batch(ctx.clone(), Arc::new(Corpus { collisions: corpus.collisions.clone(), item_groups: corpus.item_groups.clone(), name_groups: corpus.name_groups.clone(), base: corpus.base.clone(), faults: corpus.faults.clone(),
                                                               derives: corpus.derives.clone(), env_names: vec![] }),
                                   Arc::new(RefCache::new()), seed ^ 0x5eed_d15c, 0, 24, jobs, 0, true);
        // (TMPDIR / HOME / XDG_CACHE_HOME belong to the durable-state seam: they name the process's private directory.
        // Handing them junk values would cut the code off from its own files — seeded change S130, whose cache lives
        // under temp_dir(), went unseen that way: every open failed with ENOENT under TMPDIR=true.)
        const OWNED: &[&str] = &["TMPDIR", "HOME", "XDG_CACHE_HOME", "PATH", "LD_PRELOAD"];
        corpus.env_names = pre.stats.seam_names.iter().filter(|n| !OWNED.contains(&n.as_str())).map(|n| (n.clone(), envmodel::candidates(n, &repo))).collect();
    }
    let corpus = Arc::new(corpus);
    let refs = Arc::new(RefCache::new());
    let res = drive::run_batch(ctx.clone(), corpus.clone(), refs.clone(), seed, start, n, jobs, selfcheck, false);
    let st = res.stats;
    let run_s = t0.elapsed().as_secs_f64();
    std::fs::create_dir_all(&replay_dir).ok();
    let mut viols = Vec::new();
    for (d, s) in st.divergences.iter().take(4) {
        let rp = drive::minimise(&ctx, &refs, d, s, seed);
        let path = format!("{replay_dir}/C19-{seed}-{}.json", s.index);
        std::fs::write(&path, serde_json::to_string_pretty(&rp).unwrap()).unwrap();
        viols.push(json!({"session": s.index, "what": rp.what, "replay": path, "requests": rp.sched.requests.len(),
                          "original_requests": rp.original_requests}));
    }
    let mut racy_files = Vec::new();
    for s in st.racy_evidence.iter().take(1) {
        let path = format!("{replay_dir}/C19-{seed}-racy-{}.json", s.index);
        let v = json!({"property": "C19", "engine": "sessim", "layer": "A1-racy", "seed": seed, "session": s,
                       "what": "the same plan, run twice in fresh processes with every seam owned (entropy, layout, clock, environment, schedule), answered differently: the code under simulation is nondeterministic by itself (e.g. helper threads racing inside an expansion)"});
        std::fs::write(&path, serde_json::to_string_pretty(&v).unwrap()).unwrap();
        racy_files.push(json!({"session": s.index, "replay": path}));
    }
    let nontrivial: u64 = st.key_contexts.values().filter(|v| **v >= 2).map(|v| *v as u64).sum();
    let samples: Vec<Value> = (start..start + n.min(2))
        .map(|i| {
            let s = drive::gen_session(seed, i, &corpus);
            let seg = &s.segments[0];
            json!({"session": i, "segments": s.segments.len(), "env": {"entropy_seed": seg.env.entropy_seed, "clock_base": seg.env.clock_base,
                   "fake_pid": seg.env.fake_pid, "junk_vars": seg.env.junk.iter().map(|(k, v)| format!("{k}[{}]", v.len())).collect::<Vec<_>>()},
                   "workers": seg.sched.workers, "prealloc": seg.sched.prealloc, "stack_pad": seg.sched.stack_pad,
                   "requests": seg.sched.requests.iter().take(12).map(|r| json!({"worker": r.w, "mode": format!("{:?}", r.mode),
                        "derive": seg.sched.keys[r.k].derive, "item": seg.sched.keys[r.k].item.chars().take(100).collect::<String>()})).collect::<Vec<_>>(),
                   "requests_total": s.segments.iter().map(|x| x.sched.requests.len()).sum::<usize>()})
        })
        .collect();
    let v = json!({
        "seed": seed, "start": start, "sessions": st.sessions, "processes": st.processes, "requests": st.requests, "run_s": run_s,
        "harvest": hinfo, "reference_processes": refs.len(),
        "classes": {"ok": st.ok, "diagnostic": st.diagnostics, "panic_caught": st.panics_caught, "worker_crash": st.worker_crashes},
        "faults_issued_by_the_simulator": {"requests_for_known_failing_inputs": st.fault_requests_issued, "requests_served_without_catch_unwind": st.kill_requests_issued,
                                           "process_restarts": st.process_restarts},
        "faults": {"diagnostic_requests": st.diagnostics, "expander_panics_caught": st.panics_caught, "worker_crash_and_replace": st.worker_crashes,
                   "process_restarts": st.process_restarts, "clock_skewed_processes": st.clock_skewed, "pid_faked_processes": st.pid_faked},
        "multi_worker_processes": st.multi_worker_sessions,
        "environment_dimensions_exercised": {"processes_under_a_host_executable_name": st.dim_host_named, "processes_with_a_manifest_on_disk": st.dim_manifest_on_disk,
            "processes_with_cargo_variables": st.dim_cargo_vars, "processes_pinned_to_a_cpu_subset": st.dim_cpu_pinned, "processes_with_seeded_hostname_or_uid": st.dim_hostname_uid,
            "processes_in_a_sub_directory": st.dim_cwd_subdir, "processes_on_a_terminal": st.dim_tty, "processes_with_resource_limits": st.dim_rlimits, "processes_with_fast_or_jumping_clock": st.dim_clock_rate, "processes_with_stub_programs_on_path": st.dim_toolbin, "processes_with_lock_toolchain_or_cargo_config_files": st.dim_config_files, "processes_serving_1000_or_more_requests": st.long_processes},
        "distinct_entropy_seeds": st.entropy_seeds.len(), "distinct_layouts": st.layouts.len(),
        "distinct_keys": st.keys_seen.len(), "distinct_contexts": st.contexts.len(), "distinct_nontrivial_contexts": nontrivial,
        "environment_seams_consulted_by_the_code": {"getrandom_calls": st.seam_getrandom, "clock_calls": st.seam_clock, "getpid_calls": st.seam_getpid,
            "getenv_calls": st.seam_getenv, "threads_created_by_the_code": st.seam_threads_surplus, "env_names": st.seam_names.iter().collect::<Vec<_>>(), "env_names_given_seeded_values": corpus.env_names.iter().map(|(n, c)| json!({"name": n, "candidate_values": c})).collect::<Vec<_>>()},
        "sessions_whose_identical_plan_answered_differently": st.racy_sessions,
        "sessions_with_same_answers_but_other_addresses_while_the_code_ran_threads_of_its_own": st.sut_threaded_sessions,
        "selfchecked_processes": st.selfchecked, "nondeterministic_sessions": st.nondeterministic,
        "errors": st.errors.iter().take(5).collect::<Vec<_>>(), "error_count": st.errors.len(),
        "divergent_sessions": st.divergences.len(),
        "racy_findings": racy_files,
        "violations": viols, "digest": format!("{:016x}", st.digest), "samples": samples,
    });
    std::fs::write(&out, serde_json::to_string_pretty(&v).unwrap()).unwrap();
    if !st.errors.is_empty() || !st.nondeterministic.is_empty() {
        return 2;
    }
    if !st.divergences.is_empty() {
        return 1;
    }
    0
}

fn cmd_replay(args: &[String]) -> i32 {
    let path = &args[0];
    // a racy finding: the plan itself, to be run several times
    if let Ok(v) = std::fs::read_to_string(path).map_err(|e| e.to_string()).and_then(|t| serde_json::from_str::<Value>(&t).map_err(|e| e.to_string())) {
        if v["layer"] == "A1-racy" {
            let s: drive::Session = match serde_json::from_value(v["session"].clone()) {
                Ok(s) => s,
                Err(e) => {
                    eprintln!("sessim replay: {e}");
                    return 2;
                }
            };
            return match drive::replay_racy(&ctx(args), &s, 24) {
                Ok((true, rep)) => {
                    println!("{}", serde_json::to_string_pretty(&rep).unwrap());
                    println!("VIOLATION property=C19 replay={path}");
                    1
                }
                Ok((false, rep)) => {
                    println!("{}", serde_json::to_string_pretty(&rep).unwrap());
                    0
                }
                Err(e) => {
                    eprintln!("sessim replay: {e}");
                    2
                }
            };
        }
    }
    let rp: Replay = match std::fs::read_to_string(path).map_err(|e| e.to_string()).and_then(|s| serde_json::from_str(&s).map_err(|e| e.to_string())) {
        Ok(r) => r,
        Err(e) => {
            eprintln!("sessim replay: {e}");
            return 2;
        }
    };
    let mut ctx = ctx(args);
    if ctx.ref_exe.is_none() {
        ctx.ref_exe = rp.ref_exe.clone().filter(|p| std::path::Path::new(p).exists());
    }
    match drive::replay(&ctx, &rp) {
        Ok((diverges, report)) => {
            println!("{}", serde_json::to_string_pretty(&report).unwrap());
            if diverges {
                println!("VIOLATION property=C19 replay={path}");
                1
            } else {
                0
            }
        }
        Err(e) => {
            eprintln!("sessim replay: {e}");
            2
        }
    }
}

fn main() {
    let args: Vec<String> = std::env::args().skip(1).collect();
    let code = match args.first().map(|s| s.as_str()) {
        Some("session") => session::child_main(),
        Some("drive") => cmd_drive(&args[1..]),
        Some("replay") => cmd_replay(&args[1..]),
        Some("miri-session") => {
            // layer A2: a small session run entirely inside Miri, which owns entropy, addresses and
            // the thread schedule (preemption inside expansions) under -Zmiri-seed. No files, no stdin.
            let seed: u64 = arg(&args, "--seed").map(|s| s.parse().unwrap()).unwrap_or(1);
            let n: usize = arg(&args, "--items").map(|s| s.parse().unwrap()).unwrap_or(3);
            let mut r = rng::Rng::new(seed, 0xA2);
            let mut keys = Vec::new();
            for i in 0..n {
                // the hash-ordered families first
                keys.push(workload::family(&mut r, i % workload::N_FAMILIES));
            }
            let fault = keys.len();
            keys.push(workload::fault_keys()[0].clone());
            let mut requests = Vec::new();
            for k in 0..n {
                requests.push(session::Request { w: 0, k, mode: session::Mode::Catch });
                requests.push(session::Request { w: 1, k, mode: session::Mode::Catch });
            }
            requests.insert(1, session::Request { w: 0, k: fault, mode: session::Mode::Catch });
            requests.insert(3, session::Request { w: 1, k: fault, mode: session::Mode::Kill });
            // after the kill, worker 1 is a fresh thread: ask again
            for k in 0..n {
                requests.push(session::Request { w: 1, k, mode: session::Mode::Catch });
            }
            let sched = session::Schedule { keys: keys.clone(), workers: 2, requests, prealloc: vec![], stack_pad: 0, worker_stack_kb: 4096, dump_text: false };
            for o in session::run_schedule(sched) {
                let k = &keys[o.k];
                println!("OBS {:016x} {} {} w={} gen={}", rng::fnv(format!("{}|{}", k.derive, k.item).as_bytes()), o.class, o.digest, o.w, o.gen);
            }
            0
        }
        Some("miri-concurrent") => {
            // layer A2, second phase (see session::run_concurrent): small items of every kind of shared helper
            let seed: u64 = arg(&args, "--seed").map(|s| s.parse().unwrap()).unwrap_or(1);
            let threads: usize = arg(&args, "--threads").map(|s| s.parse().unwrap()).unwrap_or(3);
            let keys: Vec<workload::Key> = workload::CONCURRENT_ITEMS.iter().map(|(d, i)| workload::Key { derive: d.to_string(), item: i.to_string() }).collect();
            for o in session::run_concurrent(&keys, threads, seed) {
                let k = &keys[o.k];
                println!("OBS {:016x} {} {} w={} gen={}", rng::fnv(format!("{}|{}", k.derive, k.item).as_bytes()), o.class, o.digest, o.w, o.gen);
            }
            0
        }
        Some("plan") => {
            // diagnostic: the plan of one session (keys, requests, environment), as `drive` would run it
            let seed: u64 = arg(&args, "--seed").map(|s| s.parse().unwrap()).unwrap_or(1);
            let index: u64 = arg(&args, "--index").map(|s| s.parse().unwrap()).unwrap_or(0);
            let (c, _) = corpus(arg(&args, "--repo").unwrap_or("/repo"));
            let s = drive::gen_session(seed, index, &c);
            for seg in &s.segments {
                println!("{}", serde_json::to_string(&json!({"env": seg.env, "sched": seg.sched})).unwrap());
            }
            0
        }
        Some("emit-keys") => {
            // key table for the real-rustc and Miri layers: families (seeded), faults, harvested
            let seed: u64 = arg(&args, "--seed").map(|s| s.parse().unwrap()).unwrap_or(1);
            let per_family: usize = arg(&args, "--per-family").map(|s| s.parse().unwrap()).unwrap_or(4);
            let (c, _) = corpus(arg(&args, "--repo").unwrap_or("/repo"));
            let mut r = rng::Rng::new(seed, 0xA3);
            let mut fam = Vec::new();
            for f in 0..workload::N_FAMILIES {
                for _ in 0..per_family {
                    let k = workload::family(&mut r, f);
                    fam.push(json!({"family": workload::FAMILY_NAMES[f], "derive": k.derive, "item": k.item}));
                }
            }
            // every key also comes in two alternative renderings of the very same tokens
            let mut rr = rng::Rng::new(seed, 0xA4);
            let mut with_r = |derive: &str, item: &str, extra: Option<&str>| {
                let alts: Vec<String> = (0..2).filter_map(|_| workload::rerender(item, &mut rr)).collect();
                let mut v = json!({"derive": derive, "item": item, "renderings": alts});
                if let Some(f) = extra {
                    v["family"] = json!(f);
                }
                v
            };
            let fam2: Vec<Value> = fam.iter().map(|f| with_r(f["derive"].as_str().unwrap(), f["item"].as_str().unwrap(), f["family"].as_str())).collect();
            let faults2: Vec<Value> = c.faults.iter().map(|k| with_r(&k.derive, &k.item, None)).collect();
            let harv2: Vec<Value> = c.base.iter().map(|k| with_r(&k.derive, &k.item, None)).collect();
            let v = json!({"families": fam2, "faults": faults2, "harvested": harv2});
            println!("{}", serde_json::to_string(&v).unwrap());
            0
        }
        Some("harvest") => {
            let (c, info) = corpus(arg(&args, "--repo").unwrap_or("/repo"));
            println!("{}", serde_json::to_string_pretty(&info).unwrap());
            if args.iter().any(|a| a == "--list") {
                for k in &c.base {
                    println!("{}\t{}", k.derive, k.item);
                }
            }
            0
        }
        _ => {
            eprintln!("usage: sessim drive|session|replay|harvest ...");
            2
        }
    };
    std::process::exit(code);
}
