//! SplitMix64 -> xoshiro256**: the only source of randomness of the simulator.
#[derive(Clone, Debug)]
pub struct Rng {
    s: [u64; 4],
}

pub fn splitmix64(x: &mut u64) -> u64 {
    *x = x.wrapping_add(0x9E37_79B9_7F4A_7C15);
    let mut z = *x;
    z = (z ^ (z >> 30)).wrapping_mul(0xBF58_476D_1CE4_E5B9);
    z = (z ^ (z >> 27)).wrapping_mul(0x94D0_49BB_1331_11EB);
    z ^ (z >> 31)
}

impl Rng {
    pub fn new(seed: u64, stream: u64) -> Self {
        let mut x = seed ^ stream.wrapping_mul(0xD6E8_FEB8_6659_FD93).rotate_left(17);
        let mut s = [0u64; 4];
        for v in s.iter_mut() {
            *v = splitmix64(&mut x);
        }
        if s == [0; 4] {
            s[0] = 1;
        }
        Rng { s }
    }
    pub fn next(&mut self) -> u64 {
        let r = self.s[1].wrapping_mul(5).rotate_left(7).wrapping_mul(9);
        let t = self.s[1] << 17;
        self.s[2] ^= self.s[0];
        self.s[3] ^= self.s[1];
        self.s[1] ^= self.s[2];
        self.s[0] ^= self.s[3];
        self.s[2] ^= t;
        self.s[3] = self.s[3].rotate_left(45);
        r
    }
    pub fn below(&mut self, n: usize) -> usize {
        ((self.next() >> 11) % (n.max(1) as u64)) as usize
    }
    pub fn range(&mut self, lo: usize, hi_incl: usize) -> usize {
        lo + self.below(hi_incl - lo + 1)
    }
    pub fn chance(&mut self, num: usize, den: usize) -> bool {
        self.below(den) < num
    }
    pub fn pick<'a, T>(&mut self, xs: &'a [T]) -> &'a T {
        &xs[self.below(xs.len())]
    }
    pub fn shuffle<T>(&mut self, xs: &mut [T]) {
        for i in (1..xs.len()).rev() {
            let j = self.below(i + 1);
            xs.swap(i, j);
        }
    }
}

pub fn fnv(b: &[u8]) -> u64 {
    let mut h = 0xcbf2_9ce4_8422_2325u64;
    for x in b {
        h ^= *x as u64;
        h = h.wrapping_mul(0x0000_0100_0000_01B3);
    }
    h
}
