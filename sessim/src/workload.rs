//! Workload of the compiler-session simulator: expansion requests `(derive, item)`.
//!
//! * `harvest`: every struct / enum / union carrying `#[derive(..)]` in the repository's own
//!   tests (incl. `tests/compile_fail`, whose items end in diagnostics or panics — the *fault
//!   requests*), paired with each derive_more derive it lists.
//! * `family_*`: seeded generators for the derives whose emission order is hash-driven
//!   (TryInto, FromStr, Mul-like, MulAssign-like, Error, From/Into type lists), sized so that
//!   the order has freedom.

use crate::rng::Rng;
use quote::ToTokens;
use serde::{Deserialize, Serialize};
use std::collections::BTreeSet;
use std::path::Path;
use syn::visit::Visit;

#[derive(Clone, Debug, PartialEq, Eq, PartialOrd, Ord, Hash, Serialize, Deserialize)]
pub struct Key {
    pub derive: String,
    pub item: String,
}

struct Harvester<'a> {
    derives: &'a [&'static str],
    out: &'a mut BTreeSet<Key>,
    items: usize,
}

fn strip(attrs: &[syn::Attribute]) -> (Vec<syn::Attribute>, Vec<String>) {
    let mut keep = Vec::new();
    let mut derives = Vec::new();
    for a in attrs {
        if a.path().is_ident("derive") {
            let _ = a.parse_nested_meta(|m| {
                if let Some(seg) = m.path.segments.last() {
                    derives.push(seg.ident.to_string());
                }
                Ok(())
            });
        } else if a.path().is_ident("doc") || a.path().is_ident("cfg") || a.path().is_ident("cfg_attr") {
            // dropped: rustc strips cfg before a derive sees the item; docs are noise
        } else {
            keep.push(a.clone());
        }
    }
    (keep, derives)
}

impl Harvester<'_> {
    fn add(&mut self, attrs: &[syn::Attribute], rebuild: impl FnOnce(Vec<syn::Attribute>) -> String) {
        let (keep, derives) = strip(attrs);
        if derives.is_empty() {
            return;
        }
        let src = rebuild(keep);
        self.items += 1;
        for d in derives {
            if self.derives.contains(&d.as_str()) {
                self.out.insert(Key {
                    derive: d,
                    item: src.clone(),
                });
            }
        }
    }
}

impl<'ast> Visit<'ast> for Harvester<'_> {
    fn visit_item_struct(&mut self, i: &'ast syn::ItemStruct) {
        self.add(&i.attrs, |a| {
            let mut j = i.clone();
            j.attrs = a;
            j.to_token_stream().to_string()
        });
        syn::visit::visit_item_struct(self, i);
    }
    fn visit_item_enum(&mut self, i: &'ast syn::ItemEnum) {
        self.add(&i.attrs, |a| {
            let mut j = i.clone();
            j.attrs = a;
            j.to_token_stream().to_string()
        });
        syn::visit::visit_item_enum(self, i);
    }
    fn visit_item_union(&mut self, i: &'ast syn::ItemUnion) {
        self.add(&i.attrs, |a| {
            let mut j = i.clone();
            j.attrs = a;
            j.to_token_stream().to_string()
        });
        syn::visit::visit_item_union(self, i);
    }
}

fn rs_files(dir: &Path, out: &mut Vec<std::path::PathBuf>) {
    let mut entries: Vec<_> = match std::fs::read_dir(dir) {
        Ok(r) => r.filter_map(|e| e.ok()).map(|e| e.path()).collect(),
        Err(_) => return,
    };
    entries.sort();
    for p in entries {
        if p.is_dir() {
            rs_files(&p, out);
        } else if p.extension().map_or(false, |e| e == "rs") {
            out.push(p);
        }
    }
}

pub struct Harvest {
    pub keys: Vec<Key>,
    pub files: usize,
    pub files_unparsed: usize,
    pub items: usize,
}

pub fn harvest(repo: &str, derives: &[&'static str]) -> Harvest {
    let mut files = Vec::new();
    rs_files(&Path::new(repo).join("tests"), &mut files);
    rs_files(&Path::new(repo).join("examples"), &mut files);
    let mut set = BTreeSet::new();
    let mut unparsed = 0;
    let mut items = 0;
    for f in &files {
        let Ok(text) = std::fs::read_to_string(f) else { continue };
        match syn::parse_file(&text) {
            Ok(ast) => {
                let mut h = Harvester {
                    derives,
                    out: &mut set,
                    items: 0,
                };
                h.visit_file(&ast);
                items += h.items;
            }
            Err(_) => unparsed += 1,
        }
    }
    Harvest {
        keys: set.into_iter().collect(),
        files: files.len(),
        files_unparsed: unparsed,
        items,
    }
}

/// Hand-written requests that make the real expanders fail in different ways and depths.
pub fn fault_keys() -> Vec<Key> {
    let k = |d: &str, i: &str| Key {
        derive: d.into(),
        item: i.into(),
    };
    vec![
        k("Add", "union U { a : i32 , b : u32 }"),
        k("Debug", "union U { a : i32 , b : u32 }"),
        k("Display", "union U { a : i32 , b : u32 }"),
        k("From", "union U { a : i32 , b : u32 }"),
        k("Deref", "struct S { a : i32 , b : u32 }"),
        k("DerefMut", "struct S ( i32 , u32 ) ;"),
        k("FromStr", "enum E { A ( i32 ) , B }"),
        k("FromStr", "struct S { a : i32 , b : u32 }"),
        k("TryInto", "struct S ( i32 ) ;"),
        k("Unwrap", "enum E { A { x : i32 } , B }"),
        k("TryUnwrap", "struct S ( i32 ) ;"),
        k("IsVariant", "struct S ;"),
        k("Index", "struct S { a : Vec < i32 > , b : Vec < i32 > }"),
        k("IntoIterator", "struct S { a : Vec < i32 > , b : Vec < i32 > }"),
        k("Constructor", "enum E { A , B }"),
        k("Not", "union U { a : i32 }"),
        k("Sum", "enum E { A ( i32 ) }"),
        k("Display", "struct S { a : i32 , b : u32 }"),
        k("Display", "# [display (\"{}\")] struct S { a : i32 }"),
        k("Display", "# [display (bogus)] struct S ( i32 ) ;"),
        k("Debug", "# [debug (\"{\")] struct S ( i32 ) ;"),
        k("From", "# [from (forward , types (i32))] struct S ( i64 ) ;"),
        k("Into", "# [into (nope)] struct S ( i64 ) ;"),
        k("Error", "struct S { # [error (source)] a : i32 , # [error (source)] b : i32 }"),
        k("TryFrom", "# [repr (nonsense)] enum E { A }"),
        k("AsRef", "# [as_ref (forward)] struct S ( i32 , i32 ) ;"),
        k("Mul", "enum E { A ( i32 ) , B }"),
        k("MulAssign", "enum E { A ( i32 ) }"),
        k("AddAssign", "enum E { A ( i32 ) }"),
    ]
}

const PRIMS: &[&str] = &[
    "i8", "i16", "i32", "i64", "i128", "isize", "u8", "u16", "u32", "u64", "u128", "usize", "f32", "f64", "bool",
    "char", "String", "& 'static str", "Vec < u8 >", "Option < i32 >", "Box < str >", "(i32 , u8)", "[u8 ; 4]",
    ":: std :: string :: String", "std :: path :: PathBuf", "Vec < Vec < u16 > >", "Option < Box < u64 > >",
];

thread_local! {
    /// when set, every generated identifier ends in a running number: no two names of a *flood* are equal
    pub static UNIQ: std::cell::Cell<Option<u64>> = const { std::cell::Cell::new(None) };
}

fn ident(r: &mut Rng, prefix: &str) -> String {
    let s = ident_plain(r, prefix);
    match UNIQ.with(|u| u.get()) {
        Some(n) => {
            UNIQ.with(|u| u.set(Some(n + 1)));
            format!("{s}{n}")
        }
        None => s,
    }
}

fn ident_plain(r: &mut Rng, prefix: &str) -> String {
    // one identifier in twelve is long and shares a 24+ byte prefix (and often its length) with others
    if r.chance(1, 12) {
        const LONG: &[&str] = &["ConfigurationFileFormatVersion", "AVeryLongAndDescriptiveIdentifierPrefix"];
        return format!("{prefix}{}{}", r.pick(LONG), r.pick(&["One", "Two", "Six", "Ten", "Red", "Alpha"]));
    }
    // mostly ASCII; one in ten syllables is not (user code may use non-ASCII identifiers)
    const SYL: &[&str] = &[
        "ka", "lo", "mi", "ne", "ru", "sa", "ti", "vo", "xe", "zu", "Ba", "De", "Fi", "Go", "Hu", "ka", "lo", "mi", "ne", "ru", "sa", "ti", "vo", "xe", "zu", "Ba", "De", "Fi",
        "Öl", "é", "ß", "ж",
    ];
    let n = r.range(1, 3);
    let mut s = prefix.to_string();
    for _ in 0..n {
        s.push_str(*r.pick(SYL));
    }
    s
}

fn distinct_types(r: &mut Rng, n: usize) -> Vec<String> {
    let mut pool: Vec<String> = PRIMS.iter().map(|s| s.to_string()).collect();
    // more than the table holds: wrap table entries (still pairwise distinct)
    let mut w = 0;
    while pool.len() < n {
        let wrap = ["Vec < {} >", "Option < {} >", "Box < {} >", "& 'static {}"][w % 4];
        for p in PRIMS.iter().take(20) {
            pool.push(wrap.replace("{}", p));
        }
        w += 1;
    }
    r.shuffle(&mut pool);
    pool.into_iter().take(n).collect()
}

thread_local! {
    /// size multiplier for the family generators (1 = normal, >1 = "big item" sessions)
    pub static SCALE: std::cell::Cell<usize> = const { std::cell::Cell::new(1) };
}
fn scaled(r: &mut Rng, lo: usize, hi: usize) -> usize {
    let k = SCALE.with(|s| s.get());
    r.range(lo * k, hi * k)
}

/// An item whose FIELD TYPES name another item of the session (by its identifier, the way user code refers to its
/// own types), under the same derive where that derive takes a plain struct, else under one of the operator /
/// conversion derives: whatever a derive remembers about the *types it has expanded* (a registry of derived enums,
/// a table of "known" names) meets a use of such a name here — and does not in the pristine reference.
pub fn referrer(key: &Key, r: &mut Rng) -> Option<Key> {
    let di: syn::DeriveInput = syn::parse_str(&key.item).ok()?;
    let x = di.ident.to_string();
    let name = ident(r, "Rf");
    const PLAIN: &[&str] = &["Add", "Sub", "BitAnd", "BitOr", "BitXor", "Mul", "Div", "Rem", "AddAssign", "SubAssign", "MulAssign", "Not", "Neg", "From", "Into", "Constructor", "Debug", "Sum", "Product"];
    let derive = if PLAIN.contains(&key.derive.as_str()) && r.chance(3, 4) { key.derive.clone() } else { r.pick(PLAIN).to_string() };
    let other = *r.pick(PRIMS);
    let item = match r.below(5) {
        0 => format!("struct {name} ({x}) ;"),
        1 => format!("struct {name} ({x} , {other}) ;"),
        2 => format!("struct {name} {{ balance : {x} , note : {other} }}"),
        3 => format!("struct {name} {{ a : crate :: model :: {x} , b : Vec < {x} > }}"),
        _ => format!("struct {name} ({other} , Option < {x} >) ;"),
    };
    Some(Key { derive, item })
}

/// A fresh enum under an operator / conversion derive and a struct that holds it, under the same derive.
pub fn linked_pair(r: &mut Rng) -> (Key, Key) {
    let derive = *r.pick(&["Add", "Sub", "BitAnd", "BitOr", "BitXor", "Mul", "AddAssign", "Not", "Neg", "From", "Into", "Sum"]);
    let e = ident(r, "Am");
    let vs: Vec<String> = (0..r.range(2, 4)).map(|i| format!("V{i}{} ({})", ident(r, ""), r.pick(&["i32", "i64", "u8", "f64"]))).collect();
    let first = Key { derive: derive.to_string(), item: format!("enum {e} {{ {} }}", vs.join(" , ")) };
    let second = referrer(&Key { derive: derive.to_string(), item: first.item.clone() }, r).expect("referrer of a generated enum");
    (first, Key { derive: derive.to_string(), item: second.item })
}

/// Small items for the concurrent phase of the Miri layer: one or two per shared helper / name generator / table.
pub const CONCURRENT_ITEMS: &[(&str, &str)] = &[
    ("From", "# [from (forward)] struct Fw2 (i32 , String) ;"),
    ("From", "# [from (forward)] struct Fw3 { a : u8 , b : u16 , c : u32 }"),
    ("From", "enum FrE { A (i32) , B (String) , # [from (ignore)] C (u8) }"),
    ("TryInto", "# [try_into (owned , ref)] enum Ti { A (i32) , B (i64) , C (i32) }"),
    ("FromStr", "enum Fs { Alpha , Beta , ALPHA }"),
    ("Error", "enum Er < A , B > { X (A) , Y { source : B } }"),
    ("Display", "# [display (\"{a}:{b:?}\")] struct Di < T , U > { a : T , b : U }"),
    ("IsVariant", "enum Iv { AlphaBeta , GammaDelta (u8) }"),
    ("Unwrap", "enum Un { A (u8) , B (u8 , u16) , C }"),
    ("Add", "struct Ad (i32 , i64) ;"),
];

/// Type-position macro invocations; `TYPE_MACRO_DEFS` defines them for layers that compile the item.
pub const TYPE_MACROS: &[&str] = &["Arr ! [u8 , 4]", "Arr ! [i64 , 2 + 1]", "Same ! (Vec < u16 >)", "Pair ! { String , & 'static str }", "Same ! [Arr ! (bool , 3)]"];
pub const TYPE_MACRO_DEFS: &str = "macro_rules! Arr { ($t:ty, $n:expr) => { [$t; $n] }; } macro_rules! Same { ($t:ty) => { $t }; } macro_rules! Pair { ($a:ty, $b:ty) => { ($a, $b) }; }";

/// `TryInto` enum with several distinct (ref-kind x field-type-tuple) groups.
pub fn family_try_into(r: &mut Rng) -> Key {
    let groups = scaled(r, 3, 8);
    let mut tys = distinct_types(r, groups);
    // types written through type-position macros (the derive sees the invocation, not what it expands to)
    if r.chance(1, 3) {
        for (k, t) in TYPE_MACROS.iter().enumerate() {
            if r.chance(1, 2) && k < tys.len() {
                tys[k] = t.to_string();
            }
        }
        r.shuffle(&mut tys);
    }
    let mut variants = Vec::new();
    for (i, t) in tys.iter().enumerate() {
        let reps = if r.chance(1, 3) { 2 } else { 1 };
        for j in 0..reps {
            let name = format!("V{}x{}{}", i, j, ident(r, ""));
            let body = match r.below(4) {
                0 => format!("{name} ( {t} )"),
                1 => format!("{name} ( {t} , {} )", r.pick(PRIMS)),
                2 => format!("{name} {{ a : {t} }}"),
                _ => format!("{name} ( {t} , # [try_into (ignore)] u8 )"),
            };
            variants.push(body);
        }
    }
    if r.chance(1, 2) {
        variants.push("Unit".into());
    }
    r.shuffle(&mut variants);
    let attr = r.pick(&[
        "# [try_into (owned , ref , ref_mut)]",
        "# [try_into (owned , ref)]",
        "# [try_into (ref_mut)]",
        "",
    ]);
    let name = ident(r, "Ti");
    Key {
        derive: "TryInto".into(),
        item: format!("{attr} enum {name} {{ {} }}", variants.join(" , ")),
    }
}

/// Field-less `FromStr` enum including case-colliding variant groups.
pub fn family_from_str(r: &mut Rng) -> Key {
    let n = scaled(r, 4, 12);
    let mut names: Vec<String> = Vec::new();
    let mut attempts = 0;
    while names.len() < n && attempts < 10_000 {
        attempts += 1;
        let base = format!("{}{}", ident(r, ""), if attempts > 200 { attempts.to_string() } else { String::new() });
        let forms = [base.clone(), base.to_lowercase(), base.to_uppercase()];
        let k = if r.chance(1, 3) { r.range(2, 3) } else { 1 };
        for f in forms.iter().take(k) {
            if !names.contains(f) && names.len() < n {
                names.push(f.clone());
            }
        }
    }
    r.shuffle(&mut names);
    let name = ident(r, "Fs");
    Key {
        derive: "FromStr".into(),
        item: format!("enum {name} {{ {} }}", names.join(" , ")),
    }
}

/// Multi-field struct for `Mul`-like / `MulAssign`-like (one where-predicate per distinct type).
pub fn family_mul(r: &mut Rng) -> Key {
    let n = scaled(r, 3, 8);
    let generic = r.chance(1, 3);
    let mut tys = distinct_types(r, n);
    let mut gens = Vec::new();
    if generic {
        let g = r.range(1, 3);
        for i in 0..g {
            let p = format!("T{i}");
            let at = r.below(tys.len());
            tys[at] = p.clone();
            gens.push(p);
        }
        gens.dedup();
    }
    // only arithmetic-looking types matter for rustc, not for expansion; duplicates add hash collisions of equal keys
    if r.chance(1, 2) {
        let d = tys[r.below(tys.len())].clone();
        tys.push(d);
    }
    let derive = *r.pick(&[
        "Mul", "Div", "Rem", "Shr", "Shl", "MulAssign", "DivAssign", "RemAssign", "ShrAssign", "ShlAssign",
    ]);
    let name = ident(r, "Mu");
    let g = if gens.is_empty() {
        String::new()
    } else {
        format!("< {} >", gens.join(" , "))
    };
    let item = if r.chance(1, 2) {
        let fields: Vec<String> = tys.iter().enumerate().map(|(i, t)| format!("f{i} : {t}")).collect();
        format!("struct {name} {g} {{ {} }}", fields.join(" , "))
    } else {
        format!("struct {name} {g} ( {} ) ;", tys.join(" , "))
    };
    Key {
        derive: derive.into(),
        item,
    }
}

/// `Error` enum / struct with several distinct generic source types (where-predicates from a set).
pub fn family_error(r: &mut Rng) -> Key {
    let n = scaled(r, 2, 5);
    let params: Vec<String> = (0..n).map(|i| format!("E{i}")).collect();
    // sometimes every source is the same outer type around a different parameter (`Wrap<E0>`, `Wrap<E1>`):
    // bounds that differ only deep inside
    let wrap = *r.pick(&["", "", "Wrap", "Box", ":: std :: sync :: Arc"]);
    let mut variants = Vec::new();
    for (i, p) in params.iter().enumerate() {
        let p = &if wrap.is_empty() { p.clone() } else { format!("{wrap} < {p} >") };
        let v = match r.below(4) {
            0 => format!("V{i} {{ source : {p} }}"),
            1 => format!("V{i} ( # [error (source)] {p} , u8 )"),
            2 => format!("V{i} ( {p} )"),
            _ => format!("V{i} {{ # [error (source)] inner : {p} , code : i32 }}"),
        };
        variants.push(v);
    }
    if r.chance(1, 2) {
        variants.push("Plain".into());
    }
    r.shuffle(&mut variants);
    let name = ident(r, "Er");
    Key {
        derive: "Error".into(),
        item: format!("enum {name} < {} > {{ {} }}", params.join(" , "), variants.join(" , ")),
    }
}

/// `From` / `Into` with explicit type lists.
pub fn family_from_into(r: &mut Rng) -> Key {
    let n = scaled(r, 2, 6);
    let tys = distinct_types(r, n);
    let name = ident(r, "Fi");
    if r.chance(1, 2) {
        Key {
            derive: "From".into(),
            item: format!("# [from ({})] struct {name} ( i128 ) ;", tys.join(" , ")),
        }
    } else {
        let a = r.pick(&["owned", "ref", "ref_mut"]);
        let b = r.pick(&["owned", "ref", "ref_mut"]);
        let (l, rest) = tys.split_at(tys.len() / 2);
        Key {
            derive: "Into".into(),
            item: format!(
                "# [into ({a} ({}) , {b} ({}))] struct {name} ( i128 ) ;",
                l.join(" , "),
                rest.join(" , ")
            ),
        }
    }
}

/// Display / Debug with many generic parameters (bounds collected per placeholder).
pub fn family_fmt(r: &mut Rng) -> Key {
    let n = scaled(r, 2, 6);
    let params: Vec<String> = (0..n).map(|i| format!("P{i}")).collect();
    // a parameter bare or inside a compound type, next to compound types that mention no parameter at all
    // (whether a field type "contains generics" decides which bounds are emitted)
    let mut fields: Vec<String> = params
        .iter()
        .enumerate()
        .map(|(i, p)| {
            let ty = match r.below(8) {
                0 => format!("Vec < {p} >"),
                1 => format!("Option < Box < {p} > >"),
                2 => format!("& 'static [{p}]"),
                3 => format!("({p} , u8)"),
                _ => p.clone(),
            };
            format!("f{i} : {ty}")
        })
        .collect();
    let plain = r.below(4);
    for j in 0..plain {
        fields.push(format!(
            "g{j} : {}",
            r.pick(&["Option < u16 >", "Vec < u8 >", "[u8 ; 4]", "& 'static str", "(i32 , String)", "Option < Vec < Box < [u64 ; 2] > > >", "std :: collections :: BTreeMap < String , Vec < u8 > >", "fn (u8) -> Option < u8 >"])
        ));
    }
    if r.chance(1, 4) {
        // no container-level format: every field is formatted (and bounded) by itself; one may carry its own format
        let name = ident(r, "Fm");
        let k = r.below(fields.len());
        if r.chance(1, 2) {
            fields[k] = format!("# [debug (\"{{:?}}\" , {})] {}", fields[k].split(' ').next().unwrap(), fields[k]);
        }
        return Key { derive: "Debug".into(), item: format!("struct {name} < {} > {{ {} }}", params.join(" , "), fields.join(" , ")) };
    }
    let mut order: Vec<usize> = (0..n).collect();
    r.shuffle(&mut order);
    let specs = ["{}", "{:?}", "{:x}", "{:>5}", "{:#?}", "{:e}"];
    let mut lit: Vec<String> = order
        .iter()
        .map(|i| {
            let s = *r.pick(&specs);
            s.replacen('{', &format!("{{f{i}"), 1)
        })
        .collect();
    for j in 0..plain {
        if r.chance(1, 2) {
            lit.push(format!("{{g{j}:?}}"));
        }
    }
    let name = ident(r, "Fm");
    let derive = *r.pick(&["Display", "Debug"]);
    let attr = if derive == "Display" { "display" } else { "debug" };
    // synonymous spellings of the explicit-bounds attribute, before or after the format
    let extra = match r.below(6) {
        0 => format!("# [{attr} (bound ({} : Clone))] ", params[0]),
        1 => format!("# [{attr} (bounds ({} : Clone))] ", params[0]),
        2 => format!("# [{attr} (bound ({} : Clone , {} : Copy))] ", params[0], params[n - 1]),
        _ => String::new(),
    };
    let (pre, post) = if r.chance(1, 2) { (extra, String::new()) } else { (String::new(), extra) };
    Key {
        derive: derive.into(),
        item: format!(
            "{pre}# [{attr} (\"{}\")] {post}struct {name} < {} > {{ {} }}",
            lit.join(" "),
            params.join(" , "),
            fields.join(" , ")
        ),
    }
}

/// `AsRef` / `AsMut` with type lists, forwarding and generic parameters (type and const).
pub fn family_as_ref(r: &mut Rng) -> Key {
    let n = scaled(r, 1, 4);
    let name = ident(r, "Ar");
    let tparam = r.chance(1, 2);
    let cparam = r.chance(1, 2);
    let cname = *r.pick(&["N", "LEN", "SIZE"]);
    let mut gens = Vec::new();
    if tparam {
        gens.push("T".to_string());
    }
    if cparam {
        gens.push(format!("const {cname} : usize"));
    }
    let mut fields = Vec::new();
    for i in 0..n {
        let ty = match r.below(6) {
            0 => format!("[u8 ; {cname}]"), // a const parameter — or, without one, whatever `LEN` is in scope
            1 if tparam => "T".to_string(),
            2 if tparam => "Vec < T >".to_string(),
            3 => "String".to_string(),
            _ => r.pick(PRIMS).to_string(),
        };
        let attr = match r.below(7) {
            0 => "# [as_ref] ",
            1 => "# [as_ref (forward)] ",
            2 => "# [as_ref ([u8])] ",
            3 => "# [as_ref (str , [u8])] ",
            4 if tparam => "# [as_ref (T)] ",
            5 => "# [as_ref (skip)] ",
            _ => "",
        };
        fields.push(format!("{attr}f{i} : {ty}"));
    }
    let g = if gens.is_empty() { String::new() } else { format!("< {} >", gens.join(" , ")) };
    let top = *r.pick(&["", "", "# [as_ref (forward)] ", "# [as_ref (i32 , String)] "]);
    let top = if n == 1 { top } else { "" };
    let derive = *r.pick(&["AsRef", "AsMut"]);
    let item = format!("{top}struct {name} {g} {{ {} }}", fields.join(" , "));
    Key {
        derive: derive.to_string(),
        item: if derive == "AsMut" { item.replace("as_ref", "as_mut") } else { item },
    }
}

/// Display-like derives with `rename_all`, on enums whose variant names are built from words that also
/// occur in derive_more's own vocabulary (casing names): what a memo keyed by concatenated text confuses.
pub fn family_rename_all(r: &mut Rng) -> Key {
    const WORDS: &[&str] = &["Goat", "Lower", "Upper", "Pascal", "Camel", "Snake", "Screaming", "Kebab", "Case", "X", "Http", "Id"];
    const CASINGS: &[&str] = &["lowercase", "UPPERCASE", "PascalCase", "camelCase", "snake_case", "SCREAMING_SNAKE_CASE", "kebab-case", "SCREAMING-KEBAB-CASE"];
    let n = scaled(r, 1, 6);
    let mut vs: Vec<String> = Vec::new();
    let mut guard = 0;
    while vs.len() < n && guard < 200 {
        guard += 1;
        let k = r.range(1, 3);
        let v: String = (0..k).map(|_| *r.pick(WORDS)).collect();
        if !vs.contains(&v) {
            vs.push(v);
        }
    }
    let name = ident(r, "Rn");
    let casing = *r.pick(CASINGS);
    let derive = *r.pick(&["Display", "Display", "Display", "Debug"]);
    let attr = if derive == "Display" { "display" } else { "debug" };
    let per_variant = r.chance(1, 4);
    let body: Vec<String> = vs
        .iter()
        .map(|v| if per_variant && r.chance(1, 2) { format!("# [{attr} (rename_all = \"{}\")] {v}", r.pick(CASINGS)) } else { v.clone() })
        .collect();
    Key {
        derive: derive.into(),
        item: format!("# [{attr} (rename_all = \"{casing}\")] enum {name} {{ {} }}", body.join(" , ")),
    }
}

/// Pre-1.0 attribute syntax (`fmt = "..."`, `types(..)`, `bound = "..."`) in every position — container,
/// variant, field — of otherwise plain items: the derives' "legacy syntax" diagnostics.
pub fn family_legacy(r: &mut Rng) -> Key {
    let name = ident(r, "Lg");
    let (derive, attr): (&str, &str) = *r.pick(&[("Display", "display"), ("Debug", "debug"), ("Debug", "debug"), ("From", "from"), ("Into", "into"), ("Binary", "binary")]);
    let legacy: String = match attr {
        "from" | "into" => r.pick(&["types (i64)", "types (i64 , u8)", "types (\"i64\")", "forward , types (u8)"]).to_string(),
        _ => r.pick(&["fmt = \"Started\"", "fmt = \"{}\" , \"_0\"", "fmt = \"{_0}\"", "bound = \"T : Clone\"", "fmt = \"x\" , bound = \"T : Copy\""]).to_string(),
    };
    let place = r.below(3); // 0 container, 1 variant / first field, 2 last field
    let a = format!("# [{attr} ({legacy})] ");
    let item = if r.chance(1, 2) {
        let n = r.range(1, 4);
        let vs: Vec<String> = (0..n)
            .map(|i| {
                let pre = if place == 1 && i == 0 { a.as_str() } else { "" };
                let fpre = if place == 2 && i == n - 1 { a.as_str() } else { "" };
                match r.below(3) {
                    0 => format!("{pre}V{i}"),
                    1 => format!("{pre}V{i} ( {fpre}i32 )"),
                    _ => format!("{pre}V{i} {{ {fpre}x : u8 }}"),
                }
            })
            .collect();
        format!("{}enum {name} {{ {} }}", if place == 0 { a.as_str() } else { "" }, vs.join(" , "))
    } else {
        let n = r.range(1, 3);
        let fs: Vec<String> = (0..n)
            .map(|i| {
                let fpre = if (place == 1 && i == 0) || (place == 2 && i == n - 1) { a.as_str() } else { "" };
                format!("{fpre}f{i} : i32")
            })
            .collect();
        format!("{}struct {name} {{ {} }}", if place == 0 { a.as_str() } else { "" }, fs.join(" , "))
    };
    Key {
        derive: derive.into(),
        item,
    }
}

/// Variant-heavy derives: IsVariant / Unwrap / TryUnwrap on enums of mixed variant kinds, and Display-like
/// derives with one `#[display("..")]` per variant on generic enums (bounds inferred per placeholder).
pub fn family_variants(r: &mut Rng) -> Key {
    if r.chance(1, 4) {
        // an enum-level format that wraps `{_variant}`, under any of the Display-like traits, with
        // format-less single-field variants (their default placeholder depends on the trait)
        let (derive, attr) = *r.pick(&[("Display", "display"), ("Binary", "binary"), ("Octal", "octal"), ("LowerHex", "lower_hex"), ("UpperHex", "upper_hex"),
                                        ("LowerExp", "lower_exp"), ("UpperExp", "upper_exp"), ("Pointer", "pointer")]);
        let name = ident(r, "Sv");
        let n = scaled(r, 1, 4);
        let vs: Vec<String> = (0..n)
            .map(|i| {
                let v = format!("{}{i}", ident(r, "V"));
                match r.below(3) {
                    0 => format!("{v} ( u8 )"),
                    1 => format!("{v} {{ inner : u16 }}"),
                    _ => format!("# [{attr} (\"lit{i}\")] {v}"),
                }
            })
            .collect();
        let wrap = *r.pick(&["<{_variant}>", "{_variant}!", "[{_variant}] {_variant}"]);
        return Key {
            derive: derive.into(),
            item: format!("# [{attr} (\"{wrap}\")] enum {name} {{ {} }}", vs.join(" , ")),
        };
    }
    let n = scaled(r, 3, 10);
    let name = ident(r, "Vr");
    let derive = *r.pick(&["IsVariant", "Unwrap", "TryUnwrap", "Display", "Display", "Debug"]);
    let fmt = matches!(derive, "Display" | "Debug");
    let attr = if derive == "Debug" { "debug" } else { "display" };
    let generic = fmt && r.chance(2, 3);
    let mut vs = Vec::new();
    for i in 0..n {
        let v = format!("{}{i}", ident(r, "V"));
        let body = match r.below(4) {
            0 if !fmt => v.clone(),
            1 => format!("{v} ( {} )", if generic && r.chance(1, 2) { "T" } else { r.pick(PRIMS) }),
            2 => format!("{v} {{ a : {} }}", if generic && r.chance(1, 2) { "U" } else { r.pick(PRIMS) }),
            _ => format!("{v} ( {} , u8 )", if generic { "T" } else { "i32" }),
        };
        if fmt {
            let lit = if body.contains("{ a") { "{a} happened" } else { "got {_0}" };
            vs.push(format!("# [{attr} (\"{lit} #{i}\")] {body}"));
        } else {
            vs.push(body);
        }
    }
    let g = if generic { "< T , U >" } else { "" };
    Key {
        derive: derive.into(),
        item: format!("enum {name} {g} {{ {} }}", vs.join(" , ")),
    }
}

pub const N_FAMILIES: usize = 10;
pub const FAMILY_NAMES: [&str; N_FAMILIES] = ["try_into", "from_str", "mul_like", "error", "from_into", "fmt_bounds", "as_ref", "rename_all", "legacy_syntax", "variants"];

/// derives each family exercises (a hot session keeps to them)
pub const FAMILY_DERIVES: [&[&str]; N_FAMILIES] = [
    &["TryInto"],
    &["FromStr"],
    &["Mul", "Div", "Rem", "Shr", "Shl", "MulAssign", "DivAssign", "RemAssign", "ShrAssign", "ShlAssign"],
    &["Error"],
    &["From", "Into"],
    &["Display", "Debug", "Binary", "Octal", "LowerHex", "UpperHex", "LowerExp", "UpperExp", "Pointer"],
    &["AsRef", "AsMut"],
    &["Display", "Debug"],
    &["Display", "Debug", "From", "Into", "Binary"],
    &["IsVariant", "Unwrap", "TryUnwrap", "Display", "Debug", "Binary", "Octal", "LowerHex", "UpperHex", "LowerExp", "UpperExp", "Pointer"],
];

pub fn family(r: &mut Rng, which: usize) -> Key {
    match which {
        0 => family_try_into(r),
        1 => family_from_str(r),
        2 => family_mul(r),
        3 => family_error(r),
        4 => family_from_into(r),
        5 => family_fmt(r),
        6 => family_as_ref(r),
        7 => family_rename_all(r),
        8 => family_legacy(r),
        _ => family_variants(r),
    }
}


/// (derive, shape) pairs of the *wide* generator: the derives no family covers, each with the item shape it takes.
/// Shapes: 's' named struct, 't' tuple struct, 'a' named struct whose first field carries the derive's field
/// attribute, 'e' enum with payload variants, 'u' field-less enum, 'r' field-less enum with `#[try_from(repr)]`.
pub const WIDE_DERIVES: &[(&str, char, &str)] = &[
    ("Constructor", 's', ""), ("Constructor", 't', ""), ("Add", 's', ""), ("Sub", 't', ""), ("BitAnd", 's', ""), ("BitOr", 't', ""), ("BitXor", 's', ""),
    ("Not", 's', ""), ("Neg", 't', ""), ("AddAssign", 's', ""), ("SubAssign", 't', ""), ("BitAndAssign", 's', ""), ("Sum", 's', ""), ("Product", 't', ""),
    ("From", 's', ""), ("Into", 't', ""), ("Debug", 's', ""), ("Debug", 't', ""), ("Deref", 'a', "deref"), ("DerefMut", 'a', "deref_mut"),
    ("Index", 'a', "index"), ("IndexMut", 'a', "index_mut"), ("IntoIterator", 'a', "into_iterator"), ("AsRef", 'a', "as_ref"), ("AsMut", 'a', "as_mut"),
    ("Add", 'e', ""), ("From", 'e', ""), ("IsVariant", 'e', ""), ("Unwrap", 'e', ""), ("TryUnwrap", 'e', ""), ("TryInto", 'e', ""), ("Debug", 'e', ""),
    ("FromStr", 'u', ""), ("TryFrom", 'r', ""), ("Display", 'u', ""), ("Error", 's', ""),
];
pub const WIDE_SIZES: &[usize] = &[1, 2, 3, 7, 8, 9, 13, 16, 17, 33, 65];

/// A *wide* item: `slot` (not the PRNG) chooses the derive, the shape and the number of fields / variants, so
/// that a run of consecutive slots walks through every (derive, size) combination — thresholds such as "eight
/// or more fields" in a derive that no family stresses. Names and field types come from the PRNG.
pub fn wide(r: &mut Rng, slot: usize) -> Key {
    let (derive, shape, attr) = WIDE_DERIVES[slot % WIDE_DERIVES.len()];
    let n = WIDE_SIZES[(slot / WIDE_DERIVES.len() + slot) % WIDE_SIZES.len()];
    let name = ident(r, "Wd");
    let generic = r.chance(1, 4);
    let g = if generic { " < T >" } else { "" };
    let ty = |r: &mut Rng, i: usize| if generic && i == 0 { "T".to_string() } else { r.pick(PRIMS).to_string() };
    let item = match shape {
        's' | 'a' => {
            let fields: Vec<String> = (0..n).map(|i| {
                let a = if shape == 'a' && i == 0 { format!("# [{attr}] ") } else { String::new() };
                format!("{a}{} : {}", ident(r, "f"), ty(r, i))
            }).collect();
            format!("struct {name}{g} {{ {} }}", fields.join(" , "))
        }
        't' => {
            let fields: Vec<String> = (0..n).map(|i| ty(r, i)).collect();
            format!("struct {name}{g} ({}) ;", fields.join(" , "))
        }
        'e' => {
            let vars: Vec<String> = (0..n).map(|i| match i % 3 {
                0 => format!("{} ({})", ident(r, "V"), ty(r, i)),
                1 => format!("{} ({} , {})", ident(r, "V"), ty(r, 1), ty(r, 2)),
                _ => if derive == "Unwrap" || derive == "TryUnwrap" || derive == "TryInto" { ident(r, "V") } else { format!("{} {{ {} : {} }}", ident(r, "V"), ident(r, "f"), ty(r, 1)) },
            }).collect();
            format!("enum {name}{g} {{ {} }}", vars.join(" , "))
        }
        _ => {
            let vars: Vec<String> = (0..n).map(|_| ident(r, "V")).collect();
            let head = if shape == 'r' { "# [try_from (repr)] # [repr (u16)] " } else { "" };
            format!("{head}enum {name} {{ {} }}", vars.join(" , "))
        }
    };
    Key { derive: derive.to_string(), item }
}

/// The item without its generic parameters (`None` if it has none).
pub fn strip_generics(key: &Key) -> Option<Key> {
    let mut di: syn::DeriveInput = syn::parse_str(&key.item).ok()?;
    if di.generics.params.is_empty() {
        return None;
    }
    di.generics = syn::Generics::default();
    Some(Key {
        derive: key.derive.clone(),
        item: di.to_token_stream().to_string(),
    })
}

/// The item with its generic parameter *declarations* renamed (`<T>` -> `<Tq>`) while every use of the old
/// names stays: the same type texts, now naming something that is not a parameter.
pub fn rename_param_decls(key: &Key) -> Option<Key> {
    let mut di: syn::DeriveInput = syn::parse_str(&key.item).ok()?;
    let mut any = false;
    for p in di.generics.params.iter_mut() {
        if let syn::GenericParam::Type(t) = p {
            t.ident = syn::Ident::new(&format!("{}q", t.ident), proc_macro2::Span::call_site());
            any = true;
        }
    }
    if !any {
        return None;
    }
    Some(Key {
        derive: key.derive.clone(),
        item: di.to_token_stream().to_string(),
    })
}

pub fn is_generic(key: &Key) -> bool {
    syn::parse_str::<syn::DeriveInput>(&key.item).map(|d| !d.generics.params.is_empty()).unwrap_or(false)
}

/// A *twin* of an item: same derive, same type name, same generics, same number of variants / fields —
/// but other variant names, field names, field types or order. What a memo keyed too coarsely (by name,
/// by name + arity, by span-less token shape) would confuse with the original.
pub fn twin(key: &Key, r: &mut Rng) -> Option<Key> {
    let mut di: syn::DeriveInput = syn::parse_str(&key.item).ok()?;
    if !di.generics.params.is_empty() && r.chance(1, 4) {
        // the same item without its generic parameters: the names they introduced (`T`, `LEN`, `'a`) now
        // refer to whatever is in scope — what state keyed by "names seen as parameters" would get wrong
        di.generics = syn::Generics::default();
        let item = di.to_token_stream().to_string();
        return Some(Key {
            derive: key.derive.clone(),
            item,
        });
    }
    let how = r.below(5);
    let fresh = |r: &mut Rng, upper: bool| -> syn::Ident {
        let mut s = ident(r, if upper { "Q" } else { "q" });
        if !upper {
            s = s.to_lowercase();
        }
        syn::Ident::new(&s, proc_macro2::Span::call_site())
    };
    let retype = |r: &mut Rng, f: &mut syn::Field| {
        if let Ok(t) = syn::parse_str::<syn::Type>(*r.pick(PRIMS)) {
            f.ty = t;
        }
    };
    let mut changed = false;
    match &mut di.data {
        syn::Data::Enum(e) => {
            let n = e.variants.len();
            if n == 0 {
                return None;
            }
            match how {
                0 | 1 => {
                    // rename every variant (count kept)
                    for v in e.variants.iter_mut() {
                        v.ident = fresh(r, true);
                    }
                    changed = true;
                }
                2 => {
                    let i = r.below(n);
                    e.variants.iter_mut().nth(i).unwrap().ident = fresh(r, true);
                    changed = true;
                }
                3 if n >= 2 => {
                    // rotate the variants
                    let mut vs: Vec<syn::Variant> = e.variants.iter().cloned().collect();
                    vs.rotate_left(1);
                    e.variants = vs.into_iter().collect();
                    changed = true;
                }
                _ => {
                    for v in e.variants.iter_mut() {
                        for f in v.fields.iter_mut() {
                            if r.chance(1, 2) {
                                retype(r, f);
                                changed = true;
                            }
                        }
                    }
                }
            }
        }
        syn::Data::Struct(st) => {
            let n = st.fields.len();
            if n == 0 {
                return None;
            }
            match how {
                0 | 1 | 2 => {
                    for f in st.fields.iter_mut() {
                        if f.ident.is_some() && how != 2 {
                            f.ident = Some(fresh(r, false));
                            changed = true;
                        } else if r.chance(1, 2) {
                            retype(r, f);
                            changed = true;
                        }
                    }
                }
                _ => {
                    for f in st.fields.iter_mut() {
                        if r.chance(1, 2) {
                            retype(r, f);
                            changed = true;
                        }
                    }
                }
            }
        }
        syn::Data::Union(_) => return None,
    }
    if !changed {
        return None;
    }
    let item = di.to_token_stream().to_string();
    if item == key.item {
        return None;
    }
    Some(Key {
        derive: key.derive.clone(),
        item,
    })
}


/// The same token sequence, written differently: seeded blanks, tabs, line breaks and comments between
/// tokens (joint punctuation such as `::`, `->`, `'a` stays glued). To a derive this is the same input;
/// only span positions and the source text behind the spans differ.
/// (seeded blanks, tabs and line breaks; comments are left out, see `sep`)
pub fn rerender(item: &str, r: &mut Rng) -> Option<String> {
    use proc_macro2::{Delimiter, Spacing, TokenStream, TokenTree};
    use std::str::FromStr;
    let ts = TokenStream::from_str(item).ok()?;
    fn sep(r: &mut Rng) -> &'static str {
        // no comments: rustc's pretty-printer re-attaches them to the printed item, which would differ
        // for reasons that have nothing to do with the derive
        *r.pick(&[" ", " ", " ", "  ", "\t", "\n", "\n    ", "    ", "\n\n", "   \n\n"])
    }
    // 0 = start / after a joint punct (nothing may be inserted), 1 = word-like (ident, literal, group), 2 = lone punct
    fn walk(ts: TokenStream, r: &mut Rng, out: &mut String) {
        let mut prev = 0u8;
        for tt in ts {
            let cur = if matches!(tt, TokenTree::Punct(_)) { 2u8 } else { 1u8 };
            if prev != 0 {
                // tokens may also touch where that cannot merge them (`u8,4`, `Vec<u8>`, `Arr![..]`): whether two
                // tokens were adjacent in the source is something rustc remembers and prints back
                if prev != cur && r.chance(1, 3) {
                } else {
                    out.push_str(sep(r));
                }
            }
            prev = cur;
            match tt {
                TokenTree::Group(g) => {
                    let (o, c) = match g.delimiter() {
                        Delimiter::Parenthesis => ("(", ")"),
                        Delimiter::Brace => ("{", "}"),
                        Delimiter::Bracket => ("[", "]"),
                        Delimiter::None => ("", ""),
                    };
                    out.push_str(o);
                    let tight = !o.is_empty() && r.chance(1, 3);
                    if !tight {
                        out.push_str(sep(r));
                    }
                    walk(g.stream(), r, out);
                    if !tight {
                        out.push_str(sep(r));
                    }
                    out.push_str(c);
                }
                TokenTree::Punct(p) => {
                    out.push(p.as_char());
                    if p.spacing() == Spacing::Joint {
                        prev = 0;
                    }
                }
                TokenTree::Ident(i) => out.push_str(&i.to_string()),
                TokenTree::Literal(l) => out.push_str(&l.to_string()),
            }
        }
    }
    let mut out = String::new();
    walk(ts, r, &mut out);
    // must still be the same tokens
    let back = TokenStream::from_str(&out).ok()?;
    if back.to_string() != TokenStream::from_str(item).ok()?.to_string() {
        return None;
    }
    Some(out)
}


fn helper_attr_name(derive: &str) -> String {
    // Display -> display, FromStr -> from_str, IntoIterator -> into_iterator, ...
    let mut out = String::new();
    for (i, c) in derive.chars().enumerate() {
        if c.is_uppercase() && i > 0 {
            out.push('_');
        }
        out.extend(c.to_lowercase());
    }
    match out.as_str() {
        "binary" | "octal" | "lower_hex" | "upper_hex" | "lower_exp" | "upper_exp" | "pointer" => out,
        _ => out,
    }
}

/// A *broken* relative of an item: the same item with one or two attribute problems (a duplicated helper
/// attribute, an unknown parameter, a second `source`) — requests that walk the derives' error paths,
/// possibly with two problems at once (which one is reported must not depend on history either).
pub fn breaker(key: &Key, r: &mut Rng) -> Option<Key> {
    let mut di: syn::DeriveInput = syn::parse_str(&key.item).ok()?;
    let name = helper_attr_name(&key.derive);
    let bogus: syn::Attribute = {
        let src = format!("# [{name} (bogus_{} )] struct X ;", r.below(9));
        let x: syn::DeriveInput = syn::parse_str(&src).ok()?;
        x.attrs.into_iter().next()?
    };
    // 0: a helper argument that exists somewhere in derive_more's vocabulary (valid, legacy or foreign to this
    //    derive), attached at a random place — container, a variant, a field: the "valid word, wrong place"
    //    and "old syntax" error paths
    if r.chance(1, 2) {
        const VOCAB: &[&str] = &[
            "skip", "ignore", "forward", "owned", "ref", "ref_mut", "source", "backtrace", "not (source)", "not (backtrace)",
            "bound (T : Clone)", "bounds (T : Clone)", "rename_all = \"snake_case\"", "rename_all = \"nope\"", "fmt = \"{}\"",
            "fmt = \"{}\" , \"_0\"", "\"{}\"", "\"{}\" , _0", "\"{_0:?}\"", "types (i64)", "i64", "i64 , u8", "owned (i64)", "ref (i32) , owned",
            "repr", "forward , skip", "skip , skip", "",
        ];
        // half of the time a word this derive itself knows (or used to know)
        const FMT: &[&str] = &["skip", "ignore", "fmt = \"{}\"", "fmt = \"{}\" , \"_0\"", "\"{}\"", "\"{_0:?}\"", "bound (T : Clone)", "bounds (T : Clone)",
                               "rename_all = \"snake_case\"", "rename_all = \"nope\"", "transparent"];
        const CONV: &[&str] = &["forward", "skip", "ignore", "types (i64)", "i64", "i64 , u8", "owned", "ref", "ref_mut", "owned (i64)", "ref (i32) , owned", "types (i64) , forward"];
        const ERR: &[&str] = &["source", "backtrace", "not (source)", "not (backtrace)", "ignore", "forward", "source , backtrace"];
        let own: &[&str] = match key.derive.as_str() {
            "Display" | "Debug" | "Binary" | "Octal" | "LowerHex" | "UpperHex" | "LowerExp" | "UpperExp" | "Pointer" => FMT,
            "From" | "Into" | "TryInto" | "AsRef" | "AsMut" | "IntoIterator" | "Unwrap" | "TryUnwrap" | "IsVariant" | "Deref" | "DerefMut" | "Index" | "IndexMut" => CONV,
            "Error" => ERR,
            _ => VOCAB,
        };
        let arg = if r.chance(1, 2) { *r.pick(own) } else { *r.pick(VOCAB) };
        let src = format!("# [{name} ({arg})] struct X ;");
        let attr = syn::parse_str::<syn::DeriveInput>(&src).ok().and_then(|x| x.attrs.into_iter().next());
        if let Some(attr) = attr {
            let place = r.below(3);
            let mut put = false;
            match (&mut di.data, place) {
                (syn::Data::Struct(st), 1 | 2) => {
                    let n = st.fields.len();
                    if n > 0 {
                        let i = r.below(n);
                        st.fields.iter_mut().nth(i).unwrap().attrs.push(attr.clone());
                        put = true;
                    }
                }
                (syn::Data::Enum(e), 1) => {
                    let n = e.variants.len();
                    if n > 0 {
                        let i = r.below(n);
                        e.variants.iter_mut().nth(i).unwrap().attrs.push(attr.clone());
                        put = true;
                    }
                }
                (syn::Data::Enum(e), 2) => {
                    let n = e.variants.len();
                    if n > 0 {
                        let i = r.below(n);
                        let v = e.variants.iter_mut().nth(i).unwrap();
                        let m = v.fields.len();
                        if m > 0 {
                            let j = r.below(m);
                            v.fields.iter_mut().nth(j).unwrap().attrs.push(attr.clone());
                            put = true;
                        }
                    }
                }
                _ => {}
            }
            if !put {
                di.attrs.push(attr);
            }
            return Some(Key {
                derive: key.derive.clone(),
                item: di.to_token_stream().to_string(),
            });
        }
    }
    let how = r.below(6);
    let mut changed = false;
    // 3: a field's helper attribute copied onto a SIBLING field of the same variant / struct ("multiple .. specified",
    //    "conflicting fields": errors raised late, after earlier variants have been processed)
    if how >= 4 {
        let spread = |fields: &mut syn::Fields, r: &mut Rng| -> bool {
            let n = fields.len();
            if n < 2 {
                return false;
            }
            let src = fields.iter().position(|f| f.attrs.iter().any(|a| a.path().is_ident(name.as_str())));
            match src {
                Some(i) => {
                    let a = fields.iter().nth(i).unwrap().attrs.iter().find(|a| a.path().is_ident(name.as_str())).cloned().unwrap();
                    let mut j = r.below(n);
                    if j == i {
                        j = (j + 1) % n;
                    }
                    fields.iter_mut().nth(j).unwrap().attrs.push(a);
                    true
                }
                None => false,
            }
        };
        match &mut di.data {
            syn::Data::Struct(st) => changed = spread(&mut st.fields, r),
            syn::Data::Enum(e) => {
                // prefer a late variant
                let n = e.variants.len();
                for i in (0..n).rev() {
                    if r.chance(1, 3) && i > 0 {
                        continue;
                    }
                    if spread(&mut e.variants.iter_mut().nth(i).unwrap().fields, r) {
                        changed = true;
                        break;
                    }
                }
            }
            _ => {}
        }
        if changed {
            return Some(Key { derive: key.derive.clone(), item: di.to_token_stream().to_string() });
        }
    }
    // 1: duplicate an existing helper attribute somewhere
    if how == 0 || how == 2 {
        if let Some(a) = di.attrs.iter().find(|a| !a.path().is_ident("repr")).cloned() {
            di.attrs.push(a);
            changed = true;
        } else {
            let mut dup = |attrs: &mut Vec<syn::Attribute>| {
                if let Some(a) = attrs.first().cloned() {
                    attrs.push(a);
                    true
                } else {
                    false
                }
            };
            match &mut di.data {
                syn::Data::Struct(st) => {
                    for f in st.fields.iter_mut() {
                        if dup(&mut f.attrs) {
                            changed = true;
                            break;
                        }
                    }
                }
                syn::Data::Enum(e) => {
                    for v in e.variants.iter_mut() {
                        if dup(&mut v.attrs) {
                            changed = true;
                            break;
                        }
                    }
                }
                _ => {}
            }
        }
    }
    // 2: an unknown parameter on the item, or on a field
    if how == 1 || how == 2 || !changed {
        if r.chance(1, 2) {
            di.attrs.push(bogus);
        } else {
            match &mut di.data {
                syn::Data::Struct(st) => match st.fields.iter_mut().next() {
                    Some(f) => f.attrs.push(bogus),
                    None => di.attrs.push(bogus),
                },
                syn::Data::Enum(e) => match e.variants.iter_mut().next() {
                    Some(v) => v.attrs.push(bogus),
                    None => di.attrs.push(bogus),
                },
                _ => di.attrs.push(bogus),
            }
        }
        changed = true;
    }
    if !changed {
        return None;
    }
    Some(Key {
        derive: key.derive.clone(),
        item: di.to_token_stream().to_string(),
    })
}


/// A derive that usually accompanies `derive` on the same type.
pub const SIBLING_GROUPS: &[&[&str]] = &[
    &["Deref", "DerefMut"],
    &["Index", "IndexMut"],
    &["AsRef", "AsMut"],
    &["Add", "AddAssign", "Sub", "SubAssign", "Sum"],
    &["Mul", "MulAssign", "Div", "DivAssign", "Product"],
    &["Unwrap", "TryUnwrap", "IsVariant", "TryInto"],
    &["From", "Into", "Constructor", "TryFrom"],
    &["Display", "Debug", "Error", "FromStr", "Binary", "LowerHex"],
    &["Not", "Neg", "BitAnd", "BitOr", "BitXor", "BitAndAssign"],
    &["IntoIterator", "Deref", "Index"],
];

pub fn sibling_derive(derive: &str, r: &mut Rng) -> Option<&'static str> {
    const GROUPS: &[&[&str]] = &[
        &["Deref", "DerefMut"],
        &["Index", "IndexMut"],
        &["AsRef", "AsMut"],
        &["Add", "AddAssign", "Sub", "SubAssign", "Sum"],
        &["Mul", "MulAssign", "Div", "DivAssign", "Product"],
        &["Unwrap", "TryUnwrap", "IsVariant", "TryInto"],
        &["From", "Into", "Constructor", "TryFrom"],
        &["Display", "Debug", "Error", "FromStr", "Binary", "LowerHex"],
        &["Not", "Neg", "BitAnd", "BitOr", "BitXor", "BitAndAssign"],
        &["IntoIterator", "Deref", "Index"],
    ];
    let gs: Vec<&&[&str]> = GROUPS.iter().filter(|g| g.contains(&derive)).collect();
    if gs.is_empty() {
        return None;
    }
    let g = **r.pick(&gs);
    let others: Vec<&&str> = g.iter().filter(|d| **d != derive).collect();
    if others.is_empty() {
        None
    } else {
        Some(**r.pick(&others))
    }
}
