//! The simulated compiler session (child process): hosts the real expanders and serves a stream
//! of expansion requests on 1..W worker threads, released one at a time by the simulator's baton,
//! continuing after expander panics and replacing workers that die — as rustc / a proc-macro
//! server does. Reads a `Schedule` on stdin, writes one observation per request on stdout.

use crate::rng::fnv;
use crate::workload::Key;
use serde::{Deserialize, Serialize};
use std::io::{Read, Write};
use std::panic::{catch_unwind, AssertUnwindSafe};
use std::str::FromStr;
use std::sync::mpsc;

#[derive(Clone, Copy, Debug, PartialEq, Eq, Serialize, Deserialize)]
pub enum Mode {
    /// expansion runs under catch_unwind (the host survives an expander panic)
    Catch,
    /// expansion runs bare: an expander panic kills the worker thread (its thread-locals are
    /// destroyed); a fresh worker takes over the slot
    Kill,
}

#[derive(Clone, Debug, PartialEq, Serialize, Deserialize)]
pub struct Request {
    pub w: usize,
    pub k: usize,
    pub mode: Mode,
}

#[derive(Clone, Debug, PartialEq, Serialize, Deserialize)]
pub struct Schedule {
    pub keys: Vec<Key>,
    pub workers: usize,
    pub requests: Vec<Request>,
    /// heap displacement: blocks allocated and leaked before the first request
    pub prealloc: Vec<usize>,
    /// stack displacement: bytes burnt on each worker's stack before it serves
    pub stack_pad: usize,
    pub worker_stack_kb: usize,
    pub dump_text: bool,
}

#[derive(Clone, Debug, PartialEq, Serialize, Deserialize)]
pub struct Obs {
    pub seq: usize,
    pub w: usize,
    /// how many threads have occupied this worker slot before this one
    pub gen: usize,
    pub k: usize,
    pub class: String,
    pub digest: String,
    pub len: usize,
    #[serde(skip_serializing_if = "Option::is_none", default)]
    pub text: Option<String>,
    /// the worker thread died serving this request
    pub died: bool,
}

pub fn expand_key(k: &Key) -> (&'static str, String) {
    let ts = match proc_macro2::TokenStream::from_str(&k.item) {
        Ok(t) => t,
        Err(e) => return ("LEX", e.to_string()),
    };
    match dm_shadow::expand(&k.derive, ts) {
        None => ("NODERIVE", String::new()),
        Some(Ok(t)) => ("OK", t.to_string()),
        // a diagnostic is a token sequence the user sees, too
        Some(Err(e)) => ("ERR", e.to_compile_error().to_string()),
    }
}

fn observe(seq: usize, w: usize, gen: usize, kidx: usize, key: &Key, mode: Mode, dump: bool) -> Obs {
    let (class, text) = match mode {
        Mode::Catch => match catch_unwind(AssertUnwindSafe(|| expand_key(key))) {
            Ok(r) => r,
            // the statement is about token sequences: only the class of a panic is observed
            Err(_) => ("PANIC", String::new()),
        },
        Mode::Kill => expand_key(key),
    };
    Obs {
        seq,
        w,
        gen,
        k: kidx,
        class: class.to_string(),
        digest: format!("{:016x}", fnv(text.as_bytes())),
        len: text.len(),
        text: if dump { Some(text) } else { None },
        died: false,
    }
}

#[inline(never)]
fn burn_stack(bytes: usize, f: &mut dyn FnMut()) {
    let mut pad = [0u8; 512];
    std::hint::black_box(&mut pad);
    if bytes > 512 {
        burn_stack(bytes - 512, f)
    } else {
        f()
    }
    std::hint::black_box(&mut pad);
}

struct DeathNote {
    tx: mpsc::Sender<Obs>,
    seq: usize,
    w: usize,
    gen: usize,
    k: usize,
    armed: bool,
}

impl Drop for DeathNote {
    fn drop(&mut self) {
        if self.armed {
            let _ = self.tx.send(Obs {
                seq: self.seq,
                w: self.w,
                gen: self.gen,
                k: self.k,
                class: "PANIC".into(),
                digest: format!("{:016x}", fnv(b"")),
                len: 0,
                text: None,
                died: true,
            });
        }
    }
}

struct Worker {
    tx: mpsc::Sender<(usize, usize, Mode)>,
    handle: std::thread::JoinHandle<()>,
    gen: usize,
}

fn spawn_worker(w: usize, gen: usize, sched: &std::sync::Arc<Schedule>, reply: mpsc::Sender<Obs>) -> Worker {
    let (tx, rx) = mpsc::channel::<(usize, usize, Mode)>();
    let s = sched.clone();
    let handle = std::thread::Builder::new()
        .name(format!("worker-{w}-{gen}"))
        .stack_size(s.worker_stack_kb.max(256) * 1024)
        .spawn(move || {
            let mut body = || {
                while let Ok((seq, k, mode)) = rx.recv() {
                    let mut note = DeathNote {
                        tx: reply.clone(),
                        seq,
                        w,
                        gen,
                        k,
                        armed: true,
                    };
                    let o = observe(seq, w, gen, k, &s.keys[k], mode, s.dump_text);
                    note.armed = false;
                    let _ = reply.send(o);
                }
            };
            burn_stack(s.stack_pad, &mut body);
        })
        .expect("spawn worker");
    Worker { tx, handle, gen }
}

pub fn run_schedule(sched: Schedule) -> Vec<Obs> {
    // expander panics are expected faults: keep stderr quiet
    std::panic::set_hook(Box::new(|_| {}));
    for n in &sched.prealloc {
        let v: Vec<u8> = Vec::with_capacity(*n);
        std::mem::forget(v);
    }
    let sched = std::sync::Arc::new(sched);
    let (reply_tx, reply_rx) = mpsc::channel::<Obs>();
    let nw = sched.workers.max(1);
    let mut workers: Vec<Worker> = (0..nw).map(|w| spawn_worker(w, 0, &sched, reply_tx.clone())).collect();
    let mut out = Vec::with_capacity(sched.requests.len());
    for (seq, r) in sched.requests.iter().enumerate() {
        let w = r.w % nw;
        // the baton: exactly one worker runs, the simulator waits for its reply
        workers[w].tx.send((seq, r.k, r.mode)).expect("worker alive");
        let o = reply_rx.recv().expect("reply");
        if o.died {
            // the slot's thread is gone (thread-locals destroyed): replace it
            let gen = workers[w].gen + 1;
            let old = std::mem::replace(&mut workers[w], spawn_worker(w, gen, &sched, reply_tx.clone()));
            drop(old.tx);
            let _ = old.handle.join();
        }
        out.push(o);
    }
    for w in workers {
        drop(w.tx);
        let _ = w.handle.join();
    }
    out
}

pub fn child_main() -> i32 {
    let mut s = String::new();
    std::io::stdin().read_to_string(&mut s).expect("stdin");
    let sched: Schedule = match serde_json::from_str(&s) {
        Ok(s) => s,
        Err(e) => {
            eprintln!("sessim session: bad schedule: {e}");
            return 2;
        }
    };
    let obs = run_schedule(sched);
    let stdout = std::io::stdout();
    let mut lock = stdout.lock();
    for o in &obs {
        writeln!(lock, "{}", serde_json::to_string(o).unwrap()).unwrap();
    }
    0
}
