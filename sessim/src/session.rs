//! The simulated compiler session (child process): hosts the real expanders and serves a stream
//! of expansion requests on 1..W worker threads, released one at a time by the simulator's baton,
//! continuing after expander panics and replacing workers that die — as rustc / a proc-macro
//! server does. Reads a `Schedule` on stdin, writes one observation per request on stdout.

use crate::rng::fnv;
use crate::workload::Key;
use serde::{Deserialize, Serialize};
use std::io::{Read, Write};
use std::panic::{catch_unwind, AssertUnwindSafe};
use std::str::FromStr;
use std::sync::{Condvar, Mutex};

#[derive(Clone, Copy, Debug, PartialEq, Eq, Serialize, Deserialize)]
pub enum Mode {
    /// expansion runs under catch_unwind (the host survives an expander panic)
    Catch,
    /// expansion runs bare: an expander panic kills the worker thread (its thread-locals are
    /// destroyed); a fresh worker takes over the slot
    Kill,
}

#[derive(Clone, Debug, PartialEq, Serialize, Deserialize)]
pub struct Request {
    pub w: usize,
    pub k: usize,
    pub mode: Mode,
}

#[derive(Clone, Debug, PartialEq, Serialize, Deserialize)]
pub struct Schedule {
    pub keys: Vec<Key>,
    pub workers: usize,
    pub requests: Vec<Request>,
    /// heap displacement: blocks allocated and leaked before the first request
    pub prealloc: Vec<usize>,
    /// stack displacement: bytes burnt on each worker's stack before it serves
    pub stack_pad: usize,
    pub worker_stack_kb: usize,
    pub dump_text: bool,
}

#[derive(Clone, Debug, PartialEq, Serialize, Deserialize)]
pub struct Obs {
    pub seq: usize,
    pub w: usize,
    /// how many threads have occupied this worker slot before this one
    pub gen: usize,
    pub k: usize,
    pub class: String,
    pub digest: String,
    pub len: usize,
    #[serde(skip_serializing_if = "Option::is_none", default)]
    pub text: Option<String>,
    /// the worker thread died serving this request
    pub died: bool,
    /// heap and stack address seen by this request (simulator self-check only: proves that the
    /// layout is a function of the plan, and that displacement moves it; never part of the oracle)
    #[serde(default)]
    pub layout: String,
}

pub fn expand_key(k: &Key) -> (&'static str, String) {
    let ts = match proc_macro2::TokenStream::from_str(&k.item) {
        Ok(t) => t,
        Err(e) => return ("LEX", e.to_string()),
    };
    // the real entry function: parse (panics on failure), expand, `Output::process`
    match dm_shadow::expand(&k.derive, ts) {
        None => ("NODERIVE", String::new()),
        Some(t) => {
            let text = t.to_string();
            // a diagnostic is a token sequence the user sees, too (`::core::compile_error!{..}`)
            let head: String = text.chars().filter(|c| !c.is_whitespace()).take(24).collect();
            if head.starts_with("::core::compile_error!") || head.starts_with("compile_error!") {
                ("ERR", text)
            } else {
                ("OK", text)
            }
        }
    }
}

fn layout_probe() -> String {
    let b = Box::new(0u8);
    let heap = &*b as *const u8 as usize;
    let stack = &heap as *const usize as usize;
    format!("{heap:x}:{stack:x}")
}

fn observe(seq: usize, w: usize, gen: usize, kidx: usize, key: &Key, mode: Mode, dump: bool) -> Obs {
    let layout = layout_probe();
    let (class, text) = match mode {
        Mode::Catch => match catch_unwind(AssertUnwindSafe(|| expand_key(key))) {
            Ok(r) => r,
            // the statement is about token sequences: only the class of a panic is observed
            Err(_) => ("PANIC", String::new()),
        },
        Mode::Kill => expand_key(key),
    };
    Obs {
        seq,
        w,
        gen,
        k: kidx,
        class: class.to_string(),
        digest: format!("{:016x}", fnv(text.as_bytes())),
        len: text.len(),
        text: if dump { Some(text) } else { None },
        died: false,
        layout,
    }
}

/// Layer A2, second phase: `threads` real threads expand all `keys` AT THE SAME TIME (released together by a
/// barrier, each in its own seeded order), then the calling thread expands them once more. No baton: who runs
/// when is decided by Miri's seeded scheduler (this entry point is only ever run inside Miri), so that code whose
/// shared state is only safe one expansion at a time meets a real interleaving — and one that replays.
pub fn run_concurrent(keys: &[Key], threads: usize, seed: u64) -> Vec<Obs> {
    let barrier = std::sync::Arc::new(std::sync::Barrier::new(threads));
    let keys_arc = std::sync::Arc::new(keys.to_vec());
    let mut handles = Vec::new();
    for w in 0..threads {
        let b = barrier.clone();
        let ks = keys_arc.clone();
        handles.push(std::thread::spawn(move || {
            let mut out = Vec::new();
            // phase A, lockstep: every item is met by all threads at the same moment (a barrier before each):
            // the first use of anything lazily built or grown on demand happens on several threads at once
            for k in 0..ks.len() {
                b.wait();
                out.push(observe(k, w, 0, k, &ks[k], Mode::Catch, false));
            }
            // phase B, free running: each thread in an order of its own
            let mut r = crate::rng::Rng::new(seed, 0xC0 + w as u64);
            let mut order: Vec<usize> = (0..ks.len()).collect();
            r.shuffle(&mut order);
            b.wait();
            // (a third of the items per thread: Miri interprets every thread on one core)
            for (i, k) in order.into_iter().take((ks.len() + 2) / 3).enumerate() {
                out.push(observe(ks.len() + i, w, 1, k, &ks[k], Mode::Catch, false));
            }
            out
        }));
    }
    let mut out = Vec::new();
    for h in handles {
        out.extend(h.join().expect("concurrent worker"));
    }
    // phase C: afterwards, one thread alone
    for (k, key) in keys.iter().enumerate() {
        out.push(observe(k, threads, 2, k, key, Mode::Catch, false));
    }
    out
}

#[inline(never)]
fn burn_stack(bytes: usize, f: &mut dyn FnMut()) {
    let mut pad = [0u8; 512];
    std::hint::black_box(&mut pad);
    if bytes > 512 {
        burn_stack(bytes - 512, f)
    } else {
        f()
    }
    std::hint::black_box(&mut pad);
}

/// One baton slot per worker, leaked for the life of the process. Requests and replies move
/// through a futex-based Mutex/Condvar pair: unlike std's mpsc channels this allocates nothing
/// and frees nothing at timing-dependent moments, so that the heap layout of the process — which
/// the code under simulation could observe through pointer values — is a function of the plan alone.
struct Slot {
    m: Mutex<SlotState>,
    cv: Condvar,
}

#[derive(Default)]
struct SlotState {
    req: Option<(usize, usize, Mode)>,
    reply: Option<Obs>,
    quit: bool,
    ready: bool,
}

impl Slot {
    fn new() -> &'static Slot {
        Box::leak(Box::new(Slot {
            m: Mutex::new(SlotState::default()),
            cv: Condvar::new(),
        }))
    }
    fn lock(&self) -> std::sync::MutexGuard<'_, SlotState> {
        self.m.lock().unwrap_or_else(|e| e.into_inner())
    }
}

struct DeathNote {
    slot: &'static Slot,
    seq: usize,
    w: usize,
    gen: usize,
    k: usize,
    armed: bool,
}

impl Drop for DeathNote {
    fn drop(&mut self) {
        if self.armed {
            let mut g = self.slot.lock();
            g.reply = Some(Obs {
                seq: self.seq,
                w: self.w,
                gen: self.gen,
                k: self.k,
                class: "PANIC".into(),
                digest: format!("{:016x}", fnv(b"")),
                len: 0,
                text: None,
                died: true,
                layout: String::new(),
            });
            drop(g);
            self.slot.cv.notify_all();
        }
    }
}

struct Worker {
    slot: &'static Slot,
    handle: std::thread::JoinHandle<()>,
    gen: usize,
}

fn spawn_worker(w: usize, gen: usize, slot: &'static Slot, sched: &std::sync::Arc<Schedule>) -> Worker {
    {
        let mut g = slot.lock();
        *g = SlotState::default();
    }
    let s = sched.clone();
    let handle = std::thread::Builder::new()
        .name(format!("worker-{w}-{gen}"))
        .stack_size(s.worker_stack_kb.max(256) * 1024)
        .spawn(move || {
            // touch the allocator (creates this thread's arena) before the simulator goes on, so that the
            // order of the process's mmap calls — hence every address — is a function of the plan alone
            let warm: Vec<u8> = Vec::with_capacity(64);
            drop(std::hint::black_box(warm));
            {
                let mut g = slot.lock();
                g.ready = true;
            }
            slot.cv.notify_all();
            let mut body = || loop {
                let (seq, k, mode) = {
                    let mut g = slot.lock();
                    loop {
                        if g.quit {
                            return;
                        }
                        if let Some(r) = g.req.take() {
                            break r;
                        }
                        g = slot.cv.wait(g).unwrap_or_else(|e| e.into_inner());
                    }
                };
                let mut note = DeathNote {
                    slot,
                    seq,
                    w,
                    gen,
                    k,
                    armed: true,
                };
                let o = observe(seq, w, gen, k, &s.keys[k], mode, s.dump_text);
                note.armed = false;
                {
                    let mut g = slot.lock();
                    g.reply = Some(o);
                }
                slot.cv.notify_all();
            };
            burn_stack(s.stack_pad, &mut body);
        })
        .expect("spawn worker");
    {
        let mut g = slot.lock();
        while !g.ready {
            g = slot.cv.wait(g).unwrap_or_else(|e| e.into_inner());
        }
    }
    Worker { slot, handle, gen }
}

pub fn run_schedule(sched: Schedule) -> Vec<Obs> {
    // expander panics are expected faults: keep stderr quiet
    std::panic::set_hook(Box::new(|_| {}));
    for n in &sched.prealloc {
        let v: Vec<u8> = Vec::with_capacity(*n);
        std::mem::forget(v);
    }
    let sched = std::sync::Arc::new(sched);
    let nw = sched.workers.max(1);
    // tell the environment shim that start-up is over: from here on, every entropy / clock / pid /
    // environment query is made on behalf of the code under simulation (or of this loop, which makes none)
    let _ = std::env::var_os("VERIF_MARK_START");
    let slots: Vec<&'static Slot> = (0..nw).map(|_| Slot::new()).collect();
    let mut workers: Vec<Option<Worker>> = (0..nw).map(|w| Some(spawn_worker(w, 0, slots[w], &sched))).collect();
    let mut out = Vec::with_capacity(sched.requests.len());
    for (seq, r) in sched.requests.iter().enumerate() {
        let w = r.w % nw;
        let slot = workers[w].as_ref().unwrap().slot;
        // the baton: exactly one worker runs, the simulator waits for its reply
        let o = {
            let mut g = slot.lock();
            g.req = Some((seq, r.k, r.mode));
            slot.cv.notify_all();
            loop {
                if let Some(o) = g.reply.take() {
                    break o;
                }
                g = slot.cv.wait(g).unwrap_or_else(|e| e.into_inner());
            }
        };
        if o.died {
            // the slot's thread is gone (thread-locals destroyed). Wait until it has really exited
            // (stack unmapped, arena released), then create its replacement.
            let old = workers[w].take().unwrap();
            let gen = old.gen + 1;
            let _ = old.handle.join();
            workers[w] = Some(spawn_worker(w, gen, slot, &sched));
        }
        out.push(o);
    }
    for w in workers.into_iter().flatten() {
        {
            let mut g = w.slot.lock();
            g.quit = true;
        }
        w.slot.cv.notify_all();
        let _ = w.handle.join();
    }
    out
}

pub fn child_main() -> i32 {
    // normally the plan arrives on stdin and the observations leave on stdout; when the process runs on a
    // terminal (all three standard streams are a tty) both travel through files named on the command line
    let argv: Vec<String> = std::env::args().collect();
    let file_arg = |k: &str| argv.iter().position(|a| a == k).and_then(|i| argv.get(i + 1)).cloned();
    let (inf, outf) = (file_arg("--plan-file"), file_arg("--obs-file"));
    let mut s = String::new();
    match &inf {
        Some(p) => s = std::fs::read_to_string(p).expect("plan file"),
        None => {
            std::io::stdin().read_to_string(&mut s).expect("stdin");
        }
    }
    let sched: Schedule = match serde_json::from_str(&s) {
        Ok(s) => s,
        Err(e) => {
            eprintln!("sessim session: bad schedule: {e}");
            return 2;
        }
    };
    let obs = run_schedule(sched);
    let mut text = String::new();
    for o in &obs {
        text.push_str(&serde_json::to_string(o).unwrap());
        text.push('\n');
    }
    match &outf {
        Some(p) => std::fs::write(p, text).expect("obs file"),
        None => {
            let stdout = std::io::stdout();
            let mut lock = stdout.lock();
            lock.write_all(text.as_bytes()).unwrap();
        }
    }
    0
}
