//! The simulator proper (parent process): draws sessions from one seed, owns every source of
//! environment nondeterminism of the child processes (entropy, address-space layout, clock,
//! pid, environment block, worker schedule, faults), and checks refinement against the
//! reference model "expansion is a pure function of (derive, item)".

use crate::rng::{fnv, Rng};
use crate::session::{Mode, Obs, Request, Schedule};
use crate::workload::{self, Key};
use serde::{Deserialize, Serialize};
use serde_json::{json, Value};
use std::collections::{BTreeMap, HashMap, HashSet};
use std::io::Write;
use std::process::{Command, Stdio};
use std::sync::{Arc, Mutex};

/// Everything the simulator decides about one child process' environment.
#[derive(Clone, Debug, PartialEq, Serialize, Deserialize)]
pub struct Env {
    pub entropy_seed: u64,
    pub clock_base: Option<u64>,
    pub fake_pid: Option<u32>,
    pub junk: Vec<(String, String)>,
    pub aslr_off: bool,
    #[serde(default)]
    pub cwd: Option<String>,
    /// CPU affinity of the process (what `available_parallelism` reports): first cpu, count
    #[serde(default)]
    pub cpus: Option<(usize, usize)>,
    /// files present on disk when the process starts: (path relative to the private directory, index into
    /// `envmodel::MANIFESTS`) — the user's Cargo.toml as a proc-macro would find it
    #[serde(default)]
    pub files: Vec<(String, usize)>,
    /// `CARGO_MANIFEST_DIR` = this sub-directory of the private directory
    #[serde(default)]
    pub manifest_dir: Option<String>,
    /// name under which the host executable runs (`current_exe()`): rustc, rust-analyzer-proc-macro-srv, ...
    #[serde(default)]
    pub host: Option<String>,
    /// what gethostname()/uname() and getuid() report
    #[serde(default)]
    pub hostname: Option<String>,
    #[serde(default)]
    pub uid: Option<u32>,
    /// extra command-line arguments of the host process, as a compiler would have them
    #[serde(default)]
    pub args: Vec<String>,
    /// stdin / stdout / stderr of the process are a terminal (the process runs under `script`, and talks to
    /// the simulator through files instead)
    #[serde(default)]
    pub tty: bool,
    /// how the simulated clock moves: (ns per query, jump of N ns at every K-th query)
    #[serde(default)]
    pub clock_step: Option<(u64, u64, u64)>,
    /// programs found first on PATH (stubs in the private directory): which toolchain banner they print
    #[serde(default)]
    pub toolbin: Option<usize>,
    /// resource limits of the process: (open files, stack bytes; u64::MAX = unlimited), set with prlimit(1)
    #[serde(default)]
    pub rlimits: Option<(u64, u64)>,
}

impl Env {
    pub fn pristine() -> Env {
        Env {
            entropy_seed: 0,
            clock_base: None,
            fake_pid: None,
            junk: vec![],
            aslr_off: true,
            cwd: None,
            cpus: None,
            files: vec![],
            manifest_dir: None,
            host: None,
            hostname: None,
            uid: None,
            args: vec![],
            tty: false,
            rlimits: None,
            clock_step: None,
            toolbin: None,
        }
    }
}

/// One session = one or more process segments (a restart discards all in-process state).
#[derive(Clone, Debug, PartialEq, Serialize, Deserialize)]
pub struct Segment {
    pub env: Env,
    pub sched: Schedule,
}

#[derive(Clone, Debug, PartialEq, Serialize, Deserialize)]
pub struct Session {
    pub index: u64,
    pub segments: Vec<Segment>,
}

pub struct Ctx {
    pub exe: String,
    pub shim: String,
    /// private directories handed to child processes as TMPDIR / HOME / cwd live under here
    pub tmp_root: String,
    pub counter: std::sync::atomic::AtomicU64,
    /// another build of the same sources (other cargo profile) that computes the references, if given
    pub ref_exe: Option<String>,
    /// set when identical plans were seen to answer differently (racy code under simulation): replays retry
    pub racy: std::sync::atomic::AtomicU64,
}

/// What the environment shim saw the child ask for after start-up.
#[derive(Clone, Debug, Default)]
pub struct Seams {
    pub getrandom: u64,
    pub clock: u64,
    pub getpid: u64,
    pub getenv: u64,
    /// threads created after the start mark (the session's own workers included)
    pub threads: u64,
    pub names: Vec<String>,
}

pub struct ChildOut {
    pub obs: Vec<Obs>,
    pub raw: String,
    pub seams: Seams,
}

/// A private directory that is all the *durable state* a simulated process can have: its TMPDIR,
/// HOME, XDG_CACHE_HOME and working directory. Segments of one session share it (a restart keeps
/// what is on disk and nothing else); every reference process gets a fresh, empty one.
pub struct Durable {
    pub path: std::path::PathBuf,
}

impl Durable {
    pub fn new(ctx: &Ctx, label: &str) -> Durable {
        let n = ctx.counter.fetch_add(1, std::sync::atomic::Ordering::SeqCst);
        // fixed-width name: the length of TMPDIR is part of the environment block, hence of the layout
        let label3: String = label.chars().chain("___".chars()).take(3).collect();
        let path = std::path::Path::new(&ctx.tmp_root).join(format!("{:08}-{}-{:010}", std::process::id(), label3, n));
        let _ = std::fs::remove_dir_all(&path);
        std::fs::create_dir_all(&path).expect("create durable dir");
        Durable { path }
    }
}

impl Drop for Durable {
    fn drop(&mut self) {
        let _ = std::fs::remove_dir_all(&self.path);
    }
}

#[derive(Clone, Debug, PartialEq, Eq)]
pub struct RefObs {
    pub class: String,
    pub digest: String,
    pub len: usize,
}

pub fn run_child(ctx: &Ctx, env: &Env, sched: &Schedule, durable: &Durable) -> Result<ChildOut, String> {
    let mut argv: Vec<String> = Vec::new();
    let host_cpus = std::thread::available_parallelism().map(|x| x.get()).unwrap_or(1);
    if let Some((first, n)) = env.cpus.filter(|(f, n)| f + n <= host_cpus) {
        argv.extend(["taskset".to_string(), "-c".to_string(), format!("{}-{}", first, first + n - 1)]);
    }
    if let Some((nofile, stack)) = env.rlimits {
        argv.extend(["prlimit".to_string(), format!("--nofile={nofile}:"), if stack == u64::MAX { "--stack=unlimited:".to_string() } else { format!("--stack={stack}:") }]);
    }
    if env.aslr_off {
        argv.extend(["setarch".to_string(), std::env::consts::ARCH.to_string(), "-R".to_string()]);
    }
    let exe = match &env.host {
        Some(name) => {
            // the same binary under the name of a real proc-macro host (what `current_exe()` reports)
            let dir = durable.path.join(".host");
            std::fs::create_dir_all(&dir).map_err(|e| format!("host dir: {e}"))?;
            let link = dir.join(name);
            if !link.exists() && std::fs::hard_link(&ctx.exe, &link).is_err() {
                std::fs::copy(&ctx.exe, &link).map_err(|e| format!("host copy: {e}"))?;
            }
            link.to_string_lossy().to_string()
        }
        None => ctx.exe.clone(),
    };
    argv.push(exe);
    for (rel, idx) in &env.files {
        let path = durable.path.join(rel);
        if let Some(parent) = path.parent() {
            std::fs::create_dir_all(parent).map_err(|e| format!("mkdir for {rel}: {e}"))?;
        }
        if !path.exists() {
            std::fs::write(&path, crate::envmodel::MANIFESTS[*idx % crate::envmodel::MANIFESTS.len()]).map_err(|e| format!("write {rel}: {e}"))?;
        }
    }
    // The environment block is built by `env -i K=V ..` in exactly the order given here (Rust's `Command`
    // would sort it): fixed variables first, then the seeded ones in their seeded order.
    let mut vars: Vec<(String, String)> = vec![
        ("PATH".into(), "/usr/bin:/bin".into()),
        ("LD_PRELOAD".into(), ctx.shim.clone()),
        ("VERIF_SHIM_REPORT".into(), "1".into()),
        ("VERIF_ENTROPY_SEED".into(), env.entropy_seed.to_string()),
    ];
    // clock and pid are always simulated (a process that reads the real ones for a side channel — a log line,
    // a statistics file — would otherwise allocate differently from run to run and break replay)
    vars.push(("VERIF_CLOCK_BASE".into(), env.clock_base.unwrap_or(1_700_000_000).to_string()));
    if let Some((step, every, jump)) = env.clock_step {
        vars.push(("VERIF_CLOCK_STEP_NS".into(), step.to_string()));
        if every > 0 {
            vars.push(("VERIF_CLOCK_JUMP".into(), format!("{every}:{jump}")));
        }
    }
    vars.push(("VERIF_FAKE_PID".into(), env.fake_pid.unwrap_or(4242).to_string()));
    if let Some(v) = env.toolbin {
        // stub programs in front of PATH: what the code finds when it asks "which toolchain / which machine is this?"
        let bin = durable.path.join(format!(".toolbin{v}"));
        if !bin.exists() {
            std::fs::create_dir_all(&bin).map_err(|e| format!("toolbin: {e}"))?;
            let banner = crate::envmodel::TOOL_BANNERS[v % crate::envmodel::TOOL_BANNERS.len()];
            for (prog, out) in [
                ("rustc", format!("rustc {banner}")), ("cargo", format!("cargo {banner}")), ("rustdoc", format!("rustdoc {banner}")), ("rustup", "rustup 1.27.1 (54dd3d00f 2024-04-24)".to_string()),
                ("git", "git version 2.39.2".to_string()), ("cc", "cc (Debian 12.2.0-14) 12.2.0".to_string()), ("uname", "Linux".to_string()), ("hostname", "stub-host".to_string()),
                ("date", "Thu Jan  1 00:00:00 UTC 1970".to_string()), ("whoami", "builder".to_string()), ("id", "uid=1000(builder) gid=1000(builder) groups=1000(builder)".to_string()), ("nproc", "4".to_string()),
            ] {
                let p = bin.join(prog);
                let fail = banner.starts_with("fail");
                std::fs::write(&p, if fail { "#!/bin/sh\necho 'error: toolchain is not installed' >&2\nexit 1\n".to_string() } else { format!("#!/bin/sh\necho '{out}'\n") }).map_err(|e| format!("stub {prog}: {e}"))?;
                use std::os::unix::fs::PermissionsExt;
                std::fs::set_permissions(&p, std::fs::Permissions::from_mode(0o755)).map_err(|e| format!("chmod {prog}: {e}"))?;
            }
        }
        vars[0].1 = format!("{}:/usr/bin:/bin", bin.to_string_lossy());
    }
    if let Some(h) = &env.hostname {
        vars.push(("VERIF_HOSTNAME".into(), h.clone()));
    }
    if let Some(u) = env.uid {
        vars.push(("VERIF_FAKE_UID".into(), u.to_string()));
    }
    // the only durable state: one private directory (same length of path for every process of a run)
    let dp = durable.path.to_string_lossy().to_string();
    vars.push(("TMPDIR".into(), dp.clone()));
    vars.push(("HOME".into(), dp.clone()));
    vars.push(("XDG_CACHE_HOME".into(), dp.clone()));
    for (k, v) in &env.junk {
        if k == "CARGO_MANIFEST_DIR" || k == "CARGO_MANIFEST_PATH" {
            continue;
        }
        vars.retain(|(n, _)| n != k || n == "PATH" || n == "LD_PRELOAD" || n.starts_with("VERIF_") && n != "VERIF_PAD");
        if !vars.iter().any(|(n, _)| n == k) {
            vars.push((k.clone(), v.clone()));
        }
    }
    if let Some(md) = &env.manifest_dir {
        let d = durable.path.join(md);
        std::fs::create_dir_all(&d).map_err(|e| format!("manifest dir: {e}"))?;
        vars.push(("CARGO_MANIFEST_DIR".into(), d.to_string_lossy().to_string()));
        vars.push(("CARGO_MANIFEST_PATH".into(), d.join("Cargo.toml").to_string_lossy().to_string()));
    }
    use std::os::unix::ffi::{OsStrExt, OsStringExt};
    // the full command line: env -i K=V .. [taskset ..] [setarch ..] exe session [args]
    let mut words: Vec<std::ffi::OsString> = vec!["env".into(), "-i".into()];
    for (k, v) in &vars {
        // U+E9FF in a seeded value stands for the lone byte 0xE9 (not valid UTF-8)
        let mut bytes: Vec<u8> = Vec::new();
        for ch in format!("{k}={v}").chars() {
            if ch == '\u{e9ff}' {
                bytes.push(0xE9);
            } else {
                let mut b = [0u8; 4];
                bytes.extend_from_slice(ch.encode_utf8(&mut b).as_bytes());
            }
        }
        words.push(std::ffi::OsString::from_vec(bytes));
    }
    words.extend(argv.iter().map(std::ffi::OsString::from));
    words.push("session".into());
    let input = serde_json::to_vec(sched).unwrap();
    let io_id = ctx.counter.fetch_add(1, std::sync::atomic::Ordering::SeqCst);
    let plan_file = std::path::Path::new(&ctx.tmp_root).join(format!("io-{}-{:010}.plan", std::process::id(), io_id));
    let obs_file = std::path::Path::new(&ctx.tmp_root).join(format!("io-{}-{:010}.obs", std::process::id(), io_id));
    if env.tty {
        std::fs::write(&plan_file, &input).map_err(|e| format!("plan file: {e}"))?;
        words.extend(["--plan-file".into(), plan_file.clone().into_os_string(), "--obs-file".into(), obs_file.clone().into_os_string()]);
    }
    words.extend(env.args.iter().map(std::ffi::OsString::from));
    let mut cmd = if env.tty {
        // `script` gives the process a pseudo-terminal for stdin, stdout and stderr
        let mut line: Vec<u8> = Vec::new();
        for w in &words {
            line.push(b'\'');
            for b in w.as_bytes() {
                if *b == b'\'' {
                    line.extend_from_slice(b"'\\''");
                } else {
                    line.push(*b);
                }
            }
            line.extend_from_slice(b"' ");
        }
        let mut c = Command::new("script");
        c.arg("-qec").arg(std::ffi::OsString::from_vec(line)).arg("/dev/null");
        c
    } else {
        let mut c = Command::new(&words[0]);
        c.args(&words[1..]);
        c
    };
    cmd.env_clear();
    if env.tty {
        cmd.env("PATH", "/usr/bin:/bin");
        cmd.env("SHELL", "/bin/sh");
    }
    let cwd = match &env.cwd {
        Some(sub) => {
            let d = durable.path.join(sub);
            std::fs::create_dir_all(&d).map_err(|e| format!("cwd: {e}"))?;
            d
        }
        None => durable.path.clone(),
    };
    cmd.current_dir(cwd);
    cmd.stdin(if env.tty { Stdio::null() } else { Stdio::piped() }).stdout(Stdio::piped()).stderr(Stdio::piped());
    let mut child = cmd.spawn().map_err(|e| format!("spawn: {e}"))?;
    if !env.tty {
        let mut stdin = child.stdin.take().unwrap();
        // the child reads all of stdin before writing anything, so this cannot deadlock
        stdin.write_all(&input).map_err(|e| format!("write schedule: {e}"))?;
    }
    let mut out = child.wait_with_output().map_err(|e| format!("wait: {e}"))?;
    if env.tty {
        // what the process printed on its terminal (the shim's report) comes back on `script`'s stdout,
        // with CR LF line ends; the observations come back in the file
        let term = String::from_utf8_lossy(&out.stdout).replace("\r\n", "\n");
        out.stderr = term.into_bytes();
        out.stdout = std::fs::read(&obs_file).unwrap_or_default();
        let _ = std::fs::remove_file(&plan_file);
        let _ = std::fs::remove_file(&obs_file);
    }
    let stderr = String::from_utf8_lossy(&out.stderr).to_string();
    if !out.status.success() {
        return Err(format!("session child failed: {:?}\n{}", out.status, stderr));
    }
    let raw = String::from_utf8_lossy(&out.stdout).to_string();
    let mut obs = Vec::new();
    for l in raw.lines() {
        obs.push(serde_json::from_str::<Obs>(l).map_err(|e| format!("bad observation line: {e}: {l}"))?);
    }
    if obs.len() != sched.requests.len() {
        return Err(format!("child answered {} of {} requests", obs.len(), sched.requests.len()));
    }
    let mut seams = Seams::default();
    if !stderr.lines().any(|l| l.starts_with("VERIF_SHIM ")) {
        return Err("the environment shim did not report: LD_PRELOAD interposition is not in effect".into());
    }
    for l in stderr.lines() {
        if let Some(rest) = l.strip_prefix("VERIF_SHIM ") {
            for part in rest.split_whitespace() {
                if let Some((k, v)) = part.split_once('=') {
                    match k {
                        "getrandom" => seams.getrandom = v.parse().unwrap_or(0),
                        "clock" => seams.clock = v.parse().unwrap_or(0),
                        "getpid" => seams.getpid = v.parse().unwrap_or(0),
                        "getenv" => seams.getenv = v.parse().unwrap_or(0),
                        "threads" => seams.threads = v.parse().unwrap_or(0),
                        "names" => seams.names = v.split(',').filter(|x| !x.is_empty()).map(|x| x.to_string()).collect(),
                        _ => {}
                    }
                }
            }
        }
    }
    Ok(ChildOut { obs, raw, seams })
}

/// Reference model: the observation made by a pristine one-request, one-thread process.
pub fn reference(ctx: &Ctx, key: &Key, dump: bool) -> Result<(RefObs, Option<String>), String> {
    let sched = Schedule {
        keys: vec![key.clone()],
        workers: 1,
        requests: vec![Request {
            w: 0,
            k: 0,
            mode: Mode::Catch,
        }],
        prealloc: vec![],
        stack_pad: 0,
        worker_stack_kb: 2048,
        dump_text: dump,
    };
    let dur = Durable::new(ctx, "ref");
    let out = match &ctx.ref_exe {
        Some(exe) => {
            let alt = Ctx {
                exe: exe.clone(),
                shim: ctx.shim.clone(),
                tmp_root: ctx.tmp_root.clone(),
                counter: std::sync::atomic::AtomicU64::new(0),
                ref_exe: None,
                racy: std::sync::atomic::AtomicU64::new(0),
            };
            run_child(&alt, &Env::pristine(), &sched, &dur)?
        }
        None => run_child(ctx, &Env::pristine(), &sched, &dur)?,
    };
    let o = &out.obs[0];
    Ok((
        RefObs {
            class: o.class.clone(),
            digest: o.digest.clone(),
            len: o.len,
        },
        o.text.clone(),
    ))
}

pub struct RefCache {
    map: Mutex<HashMap<Key, RefObs>>,
    pub computed: Mutex<u64>,
}

impl RefCache {
    pub fn new() -> Self {
        RefCache {
            map: Mutex::new(HashMap::new()),
            computed: Mutex::new(0),
        }
    }
    pub fn get(&self, ctx: &Ctx, key: &Key) -> Result<RefObs, String> {
        if let Some(r) = self.map.lock().unwrap().get(key) {
            return Ok(r.clone());
        }
        let (r, _) = reference(ctx, key, false)?;
        *self.computed.lock().unwrap() += 1;
        self.map.lock().unwrap().insert(key.clone(), r.clone());
        Ok(r)
    }
    pub fn len(&self) -> usize {
        self.map.lock().unwrap().len()
    }
}

// ------------------------------------------------------------------ session generation

pub struct Corpus {
    /// groups of harvested keys that share (derive, type identifier) but differ in body:
    /// what a cache keyed too coarsely would confuse
    pub collisions: Vec<Vec<usize>>,
    /// harvested keys that share the item text (the same item under several derives)
    pub item_groups: Vec<Vec<usize>>,
    /// harvested keys that share the type identifier, whatever the derive and the body
    pub name_groups: Vec<Vec<usize>>,
    pub base: Vec<Key>,
    pub faults: Vec<Key>,
    pub derives: Vec<&'static str>,
    /// environment variables the code under simulation was seen asking for (discovery pre-pass),
    /// each with candidate values
    pub env_names: Vec<(String, Vec<String>)>,
}

fn gen_env(r: &mut Rng, discovered: &[(String, Vec<String>)]) -> Env {
    let cwd = if r.chance(1, 2) { Some(r.pick(&["w", "deep/er/still", "x y"]).to_string()) } else { None };
    let mut files = Vec::new();
    if r.chance(1, 3) {
        // a manifest in the working directory (cargo starts rustc in the workspace root)
        let dir = cwd.clone().map(|d| format!("{d}/")).unwrap_or_default();
        files.push((format!("{dir}Cargo.toml"), r.below(6)));
    }
    let manifest_dir = if r.chance(1, 3) {
        files.push(("pkg/Cargo.toml".to_string(), r.below(6)));
        Some("pkg".to_string())
    } else {
        None
    };
    // what else a build leaves lying around: lock file, toolchain file, cargo configuration (project and $HOME)
    let n_manifests = 6;
    for (rel, at_cwd, idx) in [("Cargo.lock", true, 6usize), ("rust-toolchain.toml", true, 7), (".cargo/config.toml", true, 8), (".cargo/config.toml", false, 8), (".cargo/credentials.toml", false, 5), (".rustup/settings.toml", false, 9), (".gitconfig", false, 5)] {
        if r.chance(1, 6) {
            let dir = if at_cwd { cwd.clone().map(|d| format!("{d}/")).unwrap_or_default() } else { String::new() };
            let f = format!("{dir}{rel}");
            if !files.iter().any(|(x, _): &(String, usize)| *x == f) {
                files.push((f, idx));
            }
        }
    }
    let _ = n_manifests;
    Env {
        entropy_seed: if r.chance(1, 8) { 0 } else { r.next() },
        clock_base: if r.chance(1, 2) { Some(1_000_000_000 + r.next() % 1_000_000_000) } else { None },
        fake_pid: if r.chance(1, 2) { Some(2 + (r.next() % 60000) as u32) } else { None },
        junk: crate::envmodel::draw_vars(r, discovered),
        aslr_off: true,
        // a sub-directory of the process's private directory
        cwd,
        cpus: if r.chance(1, 3) {
            let n = *r.pick(&[1usize, 2, 3, 8]);
            // planned for a 16-cpu host; clamped to the real machine when the process is started
            Some((r.below(16 - n + 1), n))
        } else {
            None
        },
        files,
        manifest_dir,
        host: if r.chance(1, 3) { Some(r.pick(crate::envmodel::HOSTS).to_string()) } else { None },
        hostname: if r.chance(1, 3) { Some(r.pick(&["build-7", "ci-runner-03.example.org", "localhost", "x"]).to_string()) } else { None },
        uid: if r.chance(1, 3) { Some(*r.pick(&[0u32, 1000, 1001, 65534])) } else { None },
        args: if r.chance(1, 3) {
            let mut a: Vec<String> = vec!["--crate-name".into(), r.pick(&["demo", "my_crate", "build_script_build"]).to_string()];
            a.push(format!("--edition={}", r.pick(&["2015", "2018", "2021", "2024"])));
            if r.chance(1, 2) {
                a.extend(["-C".to_string(), format!("opt-level={}", r.pick(&["0", "3", "s"]))]);
            }
            if r.chance(1, 2) {
                a.extend(["--cfg".to_string(), "feature=\"std\"".to_string()]);
            }
            if r.chance(1, 2) {
                a.extend(["--error-format=json".to_string(), "--json=diagnostic-rendered-ansi".to_string()]);
            }
            if r.chance(1, 3) {
                a.push("--test".to_string());
            }
            if r.chance(1, 2) {
                a.extend(["--crate-type".to_string(), r.pick(&["bin", "lib", "rlib", "proc-macro", "cdylib", "dylib", "staticlib"]).to_string()]);
                if r.chance(1, 4) {
                    a.extend(["--crate-type".to_string(), r.pick(&["bin", "lib", "rlib"]).to_string()]);
                }
            }
            if r.chance(1, 3) {
                a.push(format!("--emit={}", r.pick(&["metadata", "dep-info,metadata,link", "dep-info,metadata", "link"])));
            }
            if r.chance(1, 2) {
                a.push(format!("--diagnostic-width={}", r.pick(&[40usize, 72, 80, 100, 140, 200])));
            }
            if r.chance(1, 3) {
                a.push(format!("--color={}", r.pick(&["always", "never", "auto"])));
            }
            if r.chance(1, 3) {
                a.extend(["--cap-lints".to_string(), r.pick(&["allow", "warn"]).to_string()]);
            }
            if r.chance(1, 3) {
                a.extend(["--target".to_string(), r.pick(&["x86_64-unknown-linux-gnu", "wasm32-unknown-unknown"]).to_string()]);
            }
            if r.chance(1, 3) {
                a.extend(["--emit=dep-info,metadata,link".to_string(), "-C".to_string(), "debuginfo=2".to_string(), "-L".to_string(), "dependency=/work/target/debug/deps".to_string()]);
            }
            a
        } else {
            vec![]
        },
        tty: r.chance(1, 8),
        rlimits: if r.chance(1, 6) { Some((*r.pick(&[64u64, 256, 1024]), *r.pick(&[8u64 << 20, 16 << 20, 64 << 20, 1 << 30, u64::MAX, u64::MAX]))) } else { None },
        // mostly microseconds per query; sometimes a clock that races ahead or jumps (a loaded machine, a suspended VM, NTP)
        clock_step: if r.chance(1, 4) { Some((*r.pick(&[1u64, 1_000, 1_000_000, 60_000_000, 3_000_000_000]), *r.pick(&[0u64, 0, 7, 50]), *r.pick(&[250_000_000u64, 5_000_000_000, 86_400_000_000_000]))) } else { None },
        toolbin: if r.chance(1, 5) { Some(r.below(crate::envmodel::TOOL_BANNERS.len())) } else { None },
    }
}

pub struct GenStats {
    pub family_counts: [u64; workload::N_FAMILIES],
}

/// A *wrap* session: counters that wrap, generation stamps, "every Nth" logic. For a generic item A of one
/// family and its relative A' (the same item without its generic parameters — the same type texts with the
/// opposite answers to every "is this generic?" question), the session serves  A, exactly g fillers, A'  for
/// gaps g around 256, 512 and 1024, all on one worker of one process. Fillers are healthy items of the same
/// derives that do not mention A's parameter names.
pub fn gen_wrap_session(seed: u64, index: u64, c: &Corpus) -> Session {
    let mut r = Rng::new(seed, index);
    let focus = ((index / 12) as usize) % workload::N_FAMILIES;
    let fam: &[&str] = workload::FAMILY_DERIVES[focus];
    // fillers: healthy, *non-generic* items of the family's derives (they tick whatever counts expansions
    // without touching what is remembered about A's type texts)
    let fillers: Vec<usize> = c.base.iter().enumerate().filter(|(_, k)| fam.contains(&k.derive.as_str()) && !workload::is_generic(k)).map(|(i, _)| i).collect();
    let mut keys: Vec<Key> = Vec::new();
    let mut reqs: Vec<Request> = Vec::new();
    let mut filler_keys: Vec<usize> = Vec::new();
    if fillers.is_empty() {
        // nothing to fill with: fall back to a plain short session of this index' neighbour
        return gen_session(seed, index + 1_000_003, c);
    }
    for _ in 0..60.min(fillers.len() * 2) {
        let k = c.base[*r.pick(&fillers)].clone();
        if !keys.contains(&k) {
            keys.push(k);
            filler_keys.push(keys.len() - 1);
        }
    }
    let gaps = [254usize, 255, 256, 257, 511, 512, 513, 1023, 1024];
    for g in gaps {
        // a fresh pair per gap
        let relative = |k: &Key, r: &mut Rng| if r.chance(1, 2) { workload::rename_param_decls(k) } else { workload::strip_generics(k) };
        let mut a = workload::family(&mut r, focus);
        let mut tries = 0;
        let mut a2 = relative(&a, &mut r);
        while a2.is_none() && tries < 20 {
            a = workload::family(&mut r, focus);
            a2 = relative(&a, &mut r);
            tries += 1;
        }
        let a2 = match a2 {
            Some(x) => x,
            None => match workload::twin(&a, &mut r) {
                Some(t) => t,
                None => continue,
            },
        };
        // either one first
        let (a, a2) = if r.chance(1, 2) { (a, a2) } else { (a2, a) };
        keys.push(a);
        let ka = keys.len() - 1;
        keys.push(a2);
        let kb = keys.len() - 1;
        reqs.push(Request { w: 0, k: ka, mode: Mode::Catch });
        for _ in 0..g {
            reqs.push(Request { w: 0, k: *r.pick(&filler_keys), mode: Mode::Catch });
        }
        reqs.push(Request { w: 0, k: kb, mode: Mode::Catch });
    }
    let env = gen_env(&mut r, &c.env_names);
    Session {
        index,
        segments: vec![Segment {
            env,
            sched: Schedule {
                keys,
                workers: 1,
                requests: reqs,
                prealloc: vec![],
                stack_pad: 0,
                worker_stack_kb: 8192,
                dump_text: false,
            },
        }],
    }
}

/// *Fail first*: some sixty very short processes. In each, the first thing that happens is a FAILED expansion — a
/// broken relative of an item (unknown or misplaced helper argument, duplicated attribute, an attribute spread onto
/// a sibling field: errors raised early and late) — and the next is the healthy item itself, then a near-copy.
/// Whatever a failed expansion leaves half-registered is new to every table of the process, and the healthy item
/// is the first to meet it.
pub fn gen_failfirst_session(seed: u64, index: u64, c: &Corpus) -> Session {
    let mut r = Rng::new(seed, index);
    workload::SCALE.with(|s| s.set(1));
    let mut segments = Vec::new();
    for n in 0..60usize {
        let x = if r.chance(2, 3) { workload::family(&mut r, n % workload::N_FAMILIES) } else { r.pick(&c.base).clone() };
        let mut b = None;
        for _ in 0..8 {
            b = workload::breaker(&x, &mut r);
            if b.is_some() {
                break;
            }
        }
        let Some(b) = b else { continue };
        let mut keys = vec![b, x.clone()];
        let mut reqs = vec![Request { w: 0, k: 0, mode: Mode::Catch }, Request { w: 0, k: 1, mode: Mode::Catch }];
        if let Some(t) = workload::twin(&x, &mut r) {
            keys.push(t);
            reqs.push(Request { w: 0, k: 2, mode: Mode::Catch });
        }
        if r.chance(1, 3) {
            // ... or the failure is met twice before the healthy item
            reqs.insert(1, Request { w: 0, k: 0, mode: Mode::Catch });
        }
        segments.push(Segment {
            env: if r.chance(1, 4) { gen_env(&mut r, &c.env_names) } else { Env::pristine() },
            sched: Schedule { keys, workers: 1, requests: reqs, prealloc: vec![], stack_pad: 0, worker_stack_kb: 8192, dump_text: false },
        });
    }
    Session { index, segments }
}

/// A *flood*: a few small items of the focus family, then giant items of that family until some seventy thousand
/// distinct names (variants, fields, parameters) have gone through one worker of one process, then the small items
/// again and fresh ones: ids that outgrow a small integer type, tables that rehash or start evicting, strings that
/// outgrow an inline capacity. (`wrap` sessions count *expansions* up to 1024; this one counts *names*.)
pub fn gen_flood_session(seed: u64, index: u64, _c: &Corpus) -> Session {
    let mut r = Rng::new(seed, index);
    let focus = ((index / 12) as usize) % workload::N_FAMILIES;
    let mut keys: Vec<Key> = Vec::new();
    let mut reqs: Vec<Request> = Vec::new();
    workload::SCALE.with(|s| s.set(1));
    let mut small: Vec<usize> = Vec::new();
    for _ in 0..6 {
        keys.push(workload::family(&mut r, focus));
        small.push(keys.len() - 1);
        reqs.push(Request { w: 0, k: keys.len() - 1, mode: Mode::Catch });
    }
    workload::SCALE.with(|s| s.set(40));
    workload::UNIQ.with(|u| u.set(Some(0)));
    // (names are counted by their separators; stop after some hundred and thirty thousand, or 600 items)
    let mut text = 0usize;
    let mut n = 0;
    while text < 130_000 && n < 600 {
        let k = workload::family(&mut r, focus);
        text += k.item.matches(" , ").count() + 1;
        n += 1;
        keys.push(k);
        reqs.push(Request { w: 0, k: keys.len() - 1, mode: Mode::Catch });
    }
    workload::SCALE.with(|s| s.set(1));
    workload::UNIQ.with(|u| u.set(None));
    for k in small {
        reqs.push(Request { w: 0, k, mode: Mode::Catch });
    }
    for _ in 0..6 {
        keys.push(workload::family(&mut r, focus));
        reqs.push(Request { w: 0, k: keys.len() - 1, mode: Mode::Catch });
    }
    let env = gen_env(&mut r, &_c.env_names);
    // [round 12] ... and then the process is restarted over the same disk: whatever the flood left in files (a
    // cache grown past its size limit and trimmed, a counter, a lock file) is what the second process starts
    // from. It serves the small items, the first giants (what an on-disk table filled in arrival order holds
    // at its front, where a trim to a byte length cuts) and the fresh ones again.
    let n_keys = keys.len();
    let mut again: Vec<Request> = Vec::new();
    for k in (0..n_keys.min(6 + 48)).chain(n_keys.saturating_sub(6)..n_keys) {
        again.push(Request { w: 0, k, mode: Mode::Catch });
    }
    let seg2 = Segment {
        env: env.clone(),
        sched: Schedule { keys: keys.clone(), workers: 1, requests: again, prealloc: vec![], stack_pad: 0, worker_stack_kb: 8192, dump_text: false },
    };
    Session {
        index,
        segments: vec![
            Segment {
                env,
                sched: Schedule { keys, workers: 1, requests: reqs, prealloc: vec![], stack_pad: 0, worker_stack_kb: 8192, dump_text: false },
            },
            seg2,
        ],
    }
}

/// A *sibling sweep*: every harvested item of one group of derives that usually go together
/// (Deref/DerefMut, Index/IndexMut, Unwrap/TryUnwrap/IsVariant, ...) is expanded under its own derive and,
/// right after, under each of the other derives of the group — helper attributes of the first derive still on
/// it — on one worker of one process. What one derive leaves behind for "its partner" shows here.
pub fn gen_sibling_session(seed: u64, index: u64, c: &Corpus) -> Session {
    let mut r = Rng::new(seed, index);
    let groups = workload::SIBLING_GROUPS;
    let g = groups[((index / 12) as usize) % groups.len()];
    let mut keys: Vec<Key> = Vec::new();
    let mut reqs: Vec<Request> = Vec::new();
    let mut members: Vec<usize> = c.base.iter().enumerate().filter(|(_, k)| g.contains(&k.derive.as_str())).map(|(i, _)| i).collect();
    r.shuffle(&mut members);
    for i in members.into_iter().take(400) {
        let k = c.base[i].clone();
        keys.push(k.clone());
        let ka = keys.len() - 1;
        for d in g.iter().filter(|d| **d != k.derive.as_str()) {
            keys.push(Key { derive: d.to_string(), item: k.item.clone() });
            let kb = keys.len() - 1;
            let (a, b) = if r.chance(1, 2) { (ka, kb) } else { (kb, ka) };
            reqs.push(Request { w: 0, k: a, mode: Mode::Catch });
            reqs.push(Request { w: 0, k: b, mode: Mode::Catch });
        }
    }
    if reqs.is_empty() {
        return gen_session(seed, index + 1_000_003, c);
    }
    let env = gen_env(&mut r, &c.env_names);
    Session {
        index,
        segments: vec![Segment {
            env,
            sched: Schedule { keys, workers: 1, requests: reqs, prealloc: vec![], stack_pad: 0, worker_stack_kb: 8192, dump_text: false },
        }],
    }
}

/// First index of the *environment sweep* sessions (far above any index a batch counts up to).
pub const ENVSWEEP_BASE: u64 = 1 << 40;
pub const ENVSWEEP_CASES: usize = 26;
/// wide items per sweep session: 26 sessions x 14 = 364 slots >= 36 (derive, shape) pairs x 10 sizes... one full walk takes 396 slots
pub const ENVSWEEP_WIDE: usize = 14;

/// An *environment sweep* session. The ordinary sessions draw every environment dimension independently, so a
/// particular extreme value (an unlimited stack, a terminal, one particular host name ...) meets a particular
/// kind of item only with the product of two small probabilities — under some seeds not at all within a quick
/// batch (seeded change S100 was missed under VERIF_SEED=2 for exactly this reason). A sweep session forces
/// ONE dimension to ONE value, chosen by the index (not by the PRNG), and serves a small workload that has a
/// few fresh items of every family, harvested items of every derive and a few failing ones. Every batch of
/// >= 96 sessions appends n/4 (>= ENVSWEEP_CASES) of them, so each value below is exercised on each run,
/// whatever the seed. Everything else (the other dimensions, the items, the order) is drawn from the PRNG.
pub fn gen_envsweep_session(seed: u64, index: u64, c: &Corpus) -> Session {
    let j = (index - ENVSWEEP_BASE) as usize;
    let (case, round) = (j % ENVSWEEP_CASES, j / ENVSWEEP_CASES);
    let mut r = Rng::new(seed, index);
    workload::SCALE.with(|s| s.set(1));
    let mut keys: Vec<Key> = Vec::new();
    for which in 0..workload::N_FAMILIES {
        for _ in 0..3 {
            keys.push(workload::family(&mut r, which));
        }
    }
    workload::SCALE.with(|s| s.set(4));
    keys.push(workload::family(&mut r, round % workload::N_FAMILIES));
    workload::SCALE.with(|s| s.set(1));
    // wide items of the derives no family covers: the slot walks through every (derive, size) combination
    for i in 0..ENVSWEEP_WIDE {
        keys.push(workload::wide(&mut r, j * ENVSWEEP_WIDE + i));
    }
    let mut by_derive: BTreeMap<&str, Vec<usize>> = BTreeMap::new();
    for (i, k) in c.base.iter().enumerate() {
        by_derive.entry(k.derive.as_str()).or_default().push(i);
    }
    let derive_names: Vec<&str> = by_derive.keys().copied().collect();
    // every derive once per two rounds: an offset walks through the derive list
    for n in 0..derive_names.len().div_ceil(2) {
        let d = derive_names[(n * 2 + round % 2) % derive_names.len()];
        keys.push(c.base[*r.pick(&by_derive[d])].clone());
    }
    let healthy = keys.len();
    for _ in 0..4 {
        keys.push(r.pick(&c.faults).clone());
    }
    for _ in 0..6 {
        let base = r.below(healthy);
        if let Some(b) = workload::breaker(&keys[base].clone(), &mut r) {
            keys.push(b);
        }
    }
    let mut reqs: Vec<Request> = Vec::new();
    for k in 0..keys.len() {
        for _ in 0..(if k < healthy { 2 } else { 1 }) {
            reqs.push(Request { w: 0, k, mode: Mode::Catch });
        }
    }
    r.shuffle(&mut reqs);
    let mut env = gen_env(&mut r, &c.env_names);
    let dir = env.cwd.clone().map(|d| format!("{d}/")).unwrap_or_default();
    let put = |env: &mut Env, f: String, idx: usize| {
        env.files.retain(|(x, _)| *x != f);
        env.files.push((f, idx));
    };
    match case {
        0 => env.rlimits = Some((1024, u64::MAX)),
        1 => env.rlimits = Some((64, 8 << 20)),
        2 => env.rlimits = Some((256, [16u64 << 20, 64 << 20, 1 << 30][round % 3])),
        3 => env.tty = true,
        4 => env.toolbin = Some(round % crate::envmodel::TOOL_BANNERS.len()),
        5 => env.clock_step = Some(([3_000_000_000u64, 60_000_000, 1_000_000][round % 3], 7, [86_400_000_000_000u64, 5_000_000_000][round % 2])),
        6 => env.cpus = Some((round % 16, 1)),
        7 => env.host = Some(crate::envmodel::HOSTS[round % crate::envmodel::HOSTS.len()].to_string()),
        8 => env.uid = Some([0u32, 65534, 1000][round % 3]),
        9 => env.hostname = Some(["ci-runner-03.example.org", "localhost", "x", "build-7"][round % 4].to_string()),
        10 => {
            // the whole cargo table, values walked by the round
            env.junk.retain(|(n, _)| !crate::envmodel::CARGO_VARS.iter().any(|(c, _)| c == n));
            for (name, vals) in crate::envmodel::CARGO_VARS {
                env.junk.push((name.to_string(), vals[round % vals.len()].to_string()));
            }
        }
        11 => env.junk.retain(|(n, _)| n == "VERIF_PAD"), // a bare environment
        12 => put(&mut env, format!("{dir}Cargo.toml"), round % 6),
        13 => {
            put(&mut env, "pkg/Cargo.toml".to_string(), round % 6);
            env.manifest_dir = Some("pkg".to_string());
        }
        14 => {
            for (rel, at_cwd, idx) in [("Cargo.lock", true, 6usize), ("rust-toolchain.toml", true, 7), (".cargo/config.toml", true, 8), (".cargo/config.toml", false, 8), (".cargo/credentials.toml", false, 5), (".rustup/settings.toml", false, 9), (".gitconfig", false, 5)] {
                let f = format!("{}{rel}", if at_cwd { dir.clone() } else { String::new() });
                put(&mut env, f, idx);
            }
        }
        15 => {
            env.args = ["--crate-name", "demo", "--edition=2021", "--crate-type", "bin", "--emit=dep-info,link", "-C", "opt-level=3", "-C", "debuginfo=2", "--cap-lints", "allow"].iter().map(|s| s.to_string()).collect();
        }
        16 => {
            env.args = vec!["--crate-name".into(), "my_crate".into(), "--edition=2018".into(), "--test".into(), format!("--diagnostic-width={}", [40usize, 72, 200][round % 3]), format!("--color={}", ["always", "never"][round % 2]), "--error-format=json".into(), "--json=diagnostic-rendered-ansi".into()];
        }
        17 => {
            env.fake_pid = Some([2u32, 7, 32768, 4_194_303][round % 4]);
            env.clock_base = Some([1u64, 1_000_000_000, 1_893_456_000, 4_102_444_800][round % 4]);
        }
        18 => {
            // what the code was seen asking for: every candidate value in turn
            for (name, cands) in &c.env_names {
                env.junk.retain(|(n, _)| n != name);
                let all: Vec<&str> = cands.iter().map(|s| s.as_str()).chain(crate::envmodel::GENERIC_VALUES.iter().copied()).collect();
                env.junk.push((name.clone(), all[round % all.len()].to_string()));
            }
        }
        19 => {
            for (name, _) in &c.env_names {
                env.junk.retain(|(n, _)| n != name);
            }
        }
        20 => env.junk.insert(0, ("LEGACY_LATIN1_LABEL".to_string(), format!("caf\u{e9ff}{}", round % 10))),
        21 => {
            // (files planned for the old working directory stay where they are: a manifest the process no longer finds)
            env.cwd = Some(["x y", "deep/er/still", "w"][round % 3].to_string());
        }
        22 => {
            env.cwd = None;
            env.files.clear();
            env.manifest_dir = None;
        }
        23 => {
            env.tty = true;
            env.junk.retain(|(n, _)| n != "TERM" && n != "NO_COLOR");
            env.junk.push(("TERM".to_string(), ["dumb", "xterm-256color"][round % 2].to_string()));
            if round % 2 == 0 {
                env.junk.push(("NO_COLOR".to_string(), "1".to_string()));
            }
        }
        24 => env.entropy_seed = 0x9e37_79b9_7f4a_7c15u64.wrapping_mul(round as u64 + 1),
        _ => {
            // locale and CI conventions (not cargo's): LANG / LC_ALL / CI / SOURCE_DATE_EPOCH / RUSTC_WRAPPER
            for (n, v) in [("LANG", ["C", "de_DE.UTF-8", "tr_TR.UTF-8"][round % 3]), ("LC_ALL", ["C", "en_US.UTF-8", "POSIX"][round % 3]), ("CI", ["true", "1"][round % 2]), ("SOURCE_DATE_EPOCH", ["0", "1700000000"][round % 2]), ("RUSTC_WRAPPER", ["sccache", "/usr/bin/env"][round % 2]), ("RUSTC_BOOTSTRAP", ["1", "0"][round % 2]), ("USER", ["root", "builder"][round % 2]), ("TZ", ["UTC", "Asia/Kolkata"][round % 2])] {
                env.junk.retain(|(x, _)| x != n);
                env.junk.push((n.to_string(), v.to_string()));
            }
        }
    }
    Session {
        index,
        segments: vec![Segment {
            env,
            sched: Schedule { keys, workers: 1, requests: reqs, prealloc: vec![], stack_pad: 0, worker_stack_kb: 8192, dump_text: false },
        }],
    }
}

pub fn gen_session(seed: u64, index: u64, c: &Corpus) -> Session {
    if index >= ENVSWEEP_BASE {
        return gen_envsweep_session(seed, index, c);
    }
    let mut r = Rng::new(seed, index);
    // swarm: sizes and mixes are redrawn per session
    // 1 session in 12 is *hot*: thousands of requests on one to three derives (counters, caches, thresholds);
    // 1 in 8 uses *big* family items (4x the variants / fields / type parameters)
    // (hot sessions are placed by index, and their *focus family* cycles, so that every quick batch of 96
    // sessions hammers each hash-ordered family at least once)
    let hot = index % 12 == 5;
    let focus = ((index / 12) as usize) % workload::N_FAMILIES;
    // another session in twelve is a *wrap* session (see below), another a *sibling sweep*
    if index % 12 == 11 {
        return gen_wrap_session(seed, index, c);
    }
    if index % 12 == 2 {
        return gen_sibling_session(seed, index, c);
    }
    if index % 12 == 8 {
        return gen_flood_session(seed, index, c);
    }
    if index % 12 == 4 {
        return gen_failfirst_session(seed, index, c);
    }
    let big = !hot && r.chance(1, 8);
    // and one session in 16 uses *giant* items (40x: hundreds of variants / fields), few of them
    let giant = !hot && !big && r.chance(1, 14);
    workload::SCALE.with(|s| s.set(if giant { 40 } else if big { 4 } else { 1 }));
    let len = if hot { *r.pick(&[1500usize, 3000, 5000]) } else { *r.pick(&[8usize, 12, 20, 20, 30, 40, 60, 60, 100, 160, 250, 400, 20, 40, 60, 1200]) };
    let workers = *r.pick(&[1usize, 1, 2, 2, 3, 4]);
    // a hot session carries hundreds of *distinct* generated items of its focus family
    let n_family = if hot { r.range(150, 400) } else if giant { r.range(6, 14) } else { r.range(1, 6) };
    let n_base = r.range(3, 40);
    let fault_rate = *r.pick(&[0usize, 5, 10, 20]); // percent of requests that are fault requests
    // (a hot session always has some: what failed expansions leave behind is what it is there to find)
    let fault_rate = if hot && fault_rate == 0 { 5 } else { fault_rate };
    let kill_rate = *r.pick(&[0usize, 0, 25, 50]); // percent of fault requests served without catch_unwind
    let family_on: Vec<bool> = (0..workload::N_FAMILIES).map(|_| r.chance(2, 3)).collect();

    let mut keys: Vec<Key> = Vec::new();
    let mut probes: Vec<usize> = Vec::new();
    for _ in 0..n_family {
        let mut which = r.below(workload::N_FAMILIES);
        if !family_on[which] {
            which = family_on.iter().position(|x| *x).unwrap_or(which);
        }
        if hot && r.chance(9, 10) {
            which = focus;
        }
        // in a hot session one generated item in ten is a giant (size thresholds of "fast paths")
        let giant_item = hot && r.chance(1, 10);
        if giant_item {
            workload::SCALE.with(|s| s.set(40));
        }
        let k = workload::family(&mut r, which);
        if giant_item {
            workload::SCALE.with(|s| s.set(1));
        }
        probes.push(keys.len());
        keys.push(k);
    }
    // half of the picks are stratified by derive, so that rarely used derives are not starved
    let mut by_derive: BTreeMap<&str, Vec<usize>> = BTreeMap::new();
    for (i, k) in c.base.iter().enumerate() {
        by_derive.entry(k.derive.as_str()).or_default().push(i);
    }
    let mut derive_names: Vec<&str> = by_derive.keys().copied().collect();
    let n_base = if hot {
        // keep only the derives of the focus family (plus one other), but many distinct items of them
        // (twins below add more)
        let fam: &[&str] = workload::FAMILY_DERIVES[focus];
        r.shuffle(&mut derive_names);
        let extra = derive_names.first().copied();
        derive_names.retain(|d| fam.contains(d));
        derive_names.extend(extra);
        r.range(40, 120)
    } else {
        n_base
    };
    for _ in 0..n_base {
        let k = if (hot || r.chance(1, 2)) && !derive_names.is_empty() {
            let d = *r.pick(&derive_names);
            c.base[*r.pick(&by_derive[d])].clone()
        } else {
            r.pick(&c.base).clone()
        };
        if r.chance(1, 3) {
            probes.push(keys.len());
        }
        keys.push(k);
    }
    // same derive, same type name, different body — served close together
    if !c.collisions.is_empty() {
        for _ in 0..r.below(3) {
            let g = r.pick(&c.collisions);
            for i in g.iter().take(3) {
                probes.push(keys.len());
                keys.push(c.base[*i].clone());
            }
        }
    }
    // cross pairs: a harvested item under a derive it does not list (mostly diagnostics / panics)
    for _ in 0..r.below(6) {
        let item = r.pick(&c.base).item.clone();
        keys.push(Key {
            derive: r.pick(&c.derives).to_string(),
            item,
        });
    }
    // items that refer to other items of this session by name
    for _ in 0..r.below(3) {
        let (a, b) = workload::linked_pair(&mut r);
        keys.push(a);
        probes.push(keys.len());
        keys.push(b);
    }
    for _ in 0..r.below(5) {
        let base = r.below(keys.len().max(1));
        if let Some(k) = workload::referrer(&keys[base].clone(), &mut r) {
            probes.push(keys.len());
            keys.push(k);
        }
    }
    let fault_lo = keys.len();
    for _ in 0..r.range(1, 6) {
        keys.push(r.pick(&c.faults).clone());
    }
    // broken relatives of this session's own items: more error paths, some with two problems at once
    for _ in 0..(if hot { r.range(60, 200) } else { r.below(7) }) {
        let base = r.below(fault_lo.max(1));
        if let Some(b) = workload::breaker(&keys[base].clone(), &mut r) {
            keys.push(b);
        }
    }
    let fault_hi = keys.len();

    let mut reqs = Vec::with_capacity(len);
    // every probe is asked at least twice, anywhere in the stream
    for p in &probes {
        for _ in 0..2 {
            reqs.push(Request {
                w: r.below(workers),
                k: *p,
                mode: Mode::Catch,
            });
        }
    }
    // ... and in a hot session every broken relative at least once (each walks an error path of its own)
    if hot {
        for k in fault_lo..fault_hi {
            reqs.push(Request { w: r.below(workers), k, mode: Mode::Catch });
        }
    }
    while reqs.len() < len {
        if r.below(100) < fault_rate {
            let k = r.range(fault_lo, fault_hi - 1);
            let mode = if r.below(100) < kill_rate { Mode::Kill } else { Mode::Catch };
            reqs.push(Request {
                w: r.below(workers),
                k,
                mode,
            });
        } else {
            reqs.push(Request {
                w: r.below(workers),
                k: r.below(fault_lo),
                mode: Mode::Catch,
            });
        }
    }
    r.shuffle(&mut reqs);
    reqs.truncate(len.max(probes.len() * 2));
    // item groups: one item under every derive the repository's tests put on it, back to back
    if !c.item_groups.is_empty() {
        for _ in 0..r.below(3) {
            let g = r.pick(&c.item_groups);
            let w = r.below(workers);
            let at = r.below(reqs.len() + 1);
            for (n, i) in g.iter().take(8).enumerate() {
                let pick = c.base[*i].clone();
                let idx = match keys.iter().position(|x| *x == pick) {
                    Some(p) => p,
                    None => {
                        keys.push(pick);
                        keys.len() - 1
                    }
                };
                reqs.insert(at + n, Request { w, k: idx, mode: Mode::Catch });
            }
        }
    }
    // name groups: different items (and derives) that merely share the type's name, back to back
    if !c.name_groups.is_empty() {
        for _ in 0..r.below(3) {
            let g = r.pick(&c.name_groups);
            let w = r.below(workers);
            let at = r.below(reqs.len() + 1);
            let mut members: Vec<usize> = g.clone();
            r.shuffle(&mut members);
            for (n, i) in members.iter().take(4).enumerate() {
                let pick = c.base[*i].clone();
                let idx = match keys.iter().position(|x| *x == pick) {
                    Some(p) => p,
                    None => {
                        keys.push(pick);
                        keys.len() - 1
                    }
                };
                reqs.insert(at + n, Request { w, k: idx, mode: Mode::Catch });
            }
        }
    }
    // sibling derives: an item (or its twin) under the derive that usually accompanies this one
    // (Deref/DerefMut, Index/IndexMut, AsRef/AsMut, Add/AddAssign, Unwrap/TryUnwrap/IsVariant, From/Into, ...)
    for _ in 0..r.below(4) {
        let base = r.below(fault_lo.max(1));
        if let Some(sib) = workload::sibling_derive(&keys[base].derive, &mut r) {
            let item = if r.chance(1, 2) { keys[base].item.clone() } else { workload::twin(&keys[base].clone(), &mut r).map(|t| t.item).unwrap_or_else(|| keys[base].item.clone()) };
            keys.push(Key { derive: sib.to_string(), item });
            let sk = keys.len() - 1;
            let w = r.below(workers);
            let at = r.below(reqs.len() + 1);
            let (a, b) = if r.chance(1, 2) { (base, sk) } else { (sk, base) };
            reqs.insert(at, Request { w, k: b, mode: Mode::Catch });
            reqs.insert(at, Request { w, k: a, mode: Mode::Catch });
        }
    }
    // twins: an item and its near-copy (same derive, name and arity; other variant / field names, types,
    // order) served back to back on one worker, in either order
    for _ in 0..(if hot { r.range(40, 200) } else { r.below(4) }) {
        let base = r.below(fault_lo.max(1));
        if let Some(t) = workload::twin(&keys[base].clone(), &mut r) {
            keys.push(t);
            let tk = keys.len() - 1;
            let w = r.below(workers);
            let at = r.below(reqs.len() + 1);
            let (a, b) = if r.chance(1, 2) { (base, tk) } else { (tk, base) };
            reqs.insert(at, Request { w, k: b, mode: Mode::Catch });
            reqs.insert(at, Request { w, k: a, mode: Mode::Catch });
        }
    }
    // aftershocks: right after a fault request, ask for a healthy expansion of the same derive
    // (state left behind by a failed expansion is most likely to hit its own kind)
    let mut i = 0;
    while i < reqs.len() {
        let k = reqs[i].k;
        if k >= fault_lo && k < fault_hi && r.chance(1, 2) {
            let d = keys[k].derive.clone();
            let cands: Vec<usize> = c.base.iter().enumerate().filter(|(_, b)| b.derive == d).map(|(n, _)| n).collect();
            if !cands.is_empty() {
                let pick = c.base[*r.pick(&cands)].clone();
                let idx = match keys.iter().position(|x| *x == pick) {
                    Some(p) => p,
                    None => {
                        keys.push(pick);
                        keys.len() - 1
                    }
                };
                let w = if r.chance(1, 2) { reqs[i].w } else { r.below(workers) };
                reqs.insert(i + 1, Request { w, k: idx, mode: Mode::Catch });
                i += 1;
            }
        }
        i += 1;
    }

    // openings: the very first thing a worker (a fresh thread of a fresh process) does is FAIL on a broken relative of
    // an item, and the next is that item itself — whatever a failed expansion leaves half-registered is then new to
    // every table, and the healthy item is the first to meet it
    let mut opening: Vec<Request> = Vec::new();
    for w in 0..workers {
        if !probes.is_empty() && r.chance(1, 2) {
            let x = *r.pick(&probes);
            for _ in 0..8 {
                if let Some(b) = workload::breaker(&keys[x].clone(), &mut r) {
                    keys.push(b);
                    opening.push(Request { w, k: keys.len() - 1, mode: Mode::Catch });
                    opening.push(Request { w, k: x, mode: Mode::Catch });
                    break;
                }
            }
        }
    }
    if !opening.is_empty() {
        opening.extend(reqs);
        reqs = opening;
    }

    // process restarts: cut the stream at seeded points; nothing is durable
    let cuts = *r.pick(&[0usize, 0, 0, 1, 1, 2]);
    let mut bounds = vec![0, reqs.len()];
    for _ in 0..cuts {
        bounds.push(r.below(reqs.len() + 1));
    }
    bounds.sort();
    bounds.dedup();
    let mut segments = Vec::new();
    let same_env = r.chance(1, 2);
    let env0 = gen_env(&mut r, &c.env_names);
    for win in bounds.windows(2) {
        let part = reqs[win[0]..win[1]].to_vec();
        if part.is_empty() {
            continue;
        }
        let env = if same_env { env0.clone() } else { gen_env(&mut r, &c.env_names) };
        let prealloc: Vec<usize> = (0..r.below(6)).map(|_| *r.pick(&[16usize, 48, 100, 1000, 4096, 70000])).collect();
        segments.push(Segment {
            env,
            sched: Schedule {
                keys: keys.clone(),
                workers,
                requests: part,
                prealloc,
                stack_pad: *r.pick(&[0usize, 0, 1000, 5000, 40000]),
                worker_stack_kb: *r.pick(&[2048usize, 4096, 8192]),
                dump_text: false,
            },
        });
    }
    workload::SCALE.with(|s| s.set(1));
    Session { index, segments }
}

// ------------------------------------------------------------------ checking

#[derive(Clone, Debug, Serialize, Deserialize)]
pub struct Divergence {
    pub session: u64,
    pub segment: usize,
    pub seq: usize,
    pub key: Key,
    pub expected: (String, String),
    pub observed: (String, String),
}

#[derive(Default)]
pub struct Stats {
    pub sessions: u64,
    pub processes: u64,
    pub requests: u64,
    pub ok: u64,
    pub diagnostics: u64,
    pub panics_caught: u64,
    pub worker_crashes: u64,
    pub process_restarts: u64,
    pub multi_worker_sessions: u64,
    pub clock_skewed: u64,
    pub pid_faked: u64,
    pub entropy_seeds: HashSet<u64>,
    pub layouts: HashSet<u64>,
    pub contexts: HashSet<u64>,
    pub key_contexts: HashMap<u64, u32>,
    pub keys_seen: HashSet<u64>,
    pub family_requests: u64,
    pub divergences: Vec<(Divergence, Session)>,
    pub nondeterministic: Vec<u64>,
    pub errors: Vec<String>,
    pub digest: u64,
    pub selfchecked: u64,
    pub seam_getrandom: u64,
    pub seam_clock: u64,
    pub seam_getpid: u64,
    pub seam_getenv: u64,
    pub seam_names: std::collections::BTreeSet<String>,
    pub dim_host_named: u64,
    pub dim_manifest_on_disk: u64,
    pub dim_cargo_vars: u64,
    pub dim_cpu_pinned: u64,
    pub dim_hostname_uid: u64,
    pub dim_cwd_subdir: u64,
    pub long_processes: u64,
    pub fault_requests_issued: u64,
    pub kill_requests_issued: u64,
    pub dim_tty: u64,
    pub dim_rlimits: u64,
    pub dim_clock_rate: u64,
    pub dim_toolbin: u64,
    pub dim_config_files: u64,
    pub racy_sessions: u64,
    pub sut_threaded_sessions: u64,
    pub seam_threads_surplus: u64,
    pub racy_evidence: Vec<Session>,
}

fn is_fault_key(k: &Key) -> bool {
    workload::fault_keys().iter().any(|f| f == k)
}

fn key_hash(k: &Key) -> u64 {
    fnv(format!("{}\u{0}{}", k.derive, k.item).as_bytes())
}

/// Runs all segments of a session, in order, over one durable directory.
pub fn run_session(ctx: &Ctx, segs: &[Segment]) -> Result<Vec<ChildOut>, String> {
    let dur = Durable::new(ctx, "ses");
    let mut outs = Vec::new();
    for (si, seg) in segs.iter().enumerate() {
        outs.push(run_child(ctx, &seg.env, &seg.sched, &dur).map_err(|e| format!("segment {si}: {e}"))?);
    }
    Ok(outs)
}

pub fn check_session(ctx: &Ctx, refs: &RefCache, s: &Session, st: &mut Stats, selfcheck: bool) {
    st.sessions += 1;
    st.process_restarts += s.segments.len().saturating_sub(1) as u64;
    let mut session_digest = fnv(&s.index.to_le_bytes());
    let outs = match run_session(ctx, &s.segments) {
        Ok(o) => o,
        Err(e) => {
            st.errors.push(format!("session {}: {}", s.index, e));
            return;
        }
    };
    if selfcheck {
        // the simulator must be deterministic first: same plan, fresh processes, fresh durable state, same logs
        match run_session(ctx, &s.segments) {
            Ok(outs2) => {
                st.selfchecked += outs2.len() as u64;
                // what the code under simulation answered, without the simulator's own layout probe
                let answers = |o: &ChildOut| o.obs.iter().map(|x| (x.k, x.class.clone(), x.digest.clone())).collect::<Vec<_>>();
                if outs.iter().zip(outs2.iter()).any(|(a, b)| answers(a) != answers(b)) {
                    // every seam is owned and the plan is identical, yet the *expansions* differ: that is the
                    // code's own nondeterminism (e.g. racing threads inside an expansion) — a violation, which
                    // the comparison with the references below reports; not a fault of the simulator
                    st.racy_sessions += 1;
                    ctx.racy.fetch_add(1, std::sync::atomic::Ordering::Relaxed);
                    if st.racy_evidence.len() < 2 {
                        st.racy_evidence.push(s.clone());
                    }
                } else if outs.iter().zip(outs2.iter()).any(|(a, b)| a.raw != b.raw) {
                    // same answers, other addresses. If the code under simulation created threads of its own
                    // (more than the session's workers and their replacements), the layout is no longer the
                    // simulator's to fix; otherwise the simulator itself is at fault.
                    let own: u64 = s.segments.iter().zip(outs.iter()).map(|(seg, o)| seg.sched.workers.max(1) as u64 + o.obs.iter().filter(|x| x.died).count() as u64).sum();
                    let seen: u64 = outs.iter().map(|o| o.seams.threads).sum();
                    if seen > own {
                        st.sut_threaded_sessions += 1;
                    } else {
                        st.nondeterministic.push(s.index);
                    }
                }
            }
            Err(e) => st.errors.push(format!("session {} (rerun): {}", s.index, e)),
        }
    }
    for (si, (seg, out)) in s.segments.iter().zip(outs.iter()).enumerate() {
        let obs = &out.obs;
        st.processes += 1;
        st.seam_getrandom += out.seams.getrandom;
        st.seam_clock += out.seams.clock;
        st.seam_getpid += out.seams.getpid;
        st.seam_getenv += out.seams.getenv;
        st.seam_threads_surplus += out.seams.threads.saturating_sub(seg.sched.workers.max(1) as u64 + out.obs.iter().filter(|x| x.died).count() as u64);
        for n in &out.seams.names {
            st.seam_names.insert(n.clone());
        }
        if seg.sched.workers > 1 {
            st.multi_worker_sessions += 1;
        }
        if seg.env.clock_base.is_some() {
            st.clock_skewed += 1;
        }
        if seg.env.fake_pid.is_some() {
            st.pid_faked += 1;
        }
        st.dim_host_named += seg.env.host.is_some() as u64;
        st.dim_manifest_on_disk += (!seg.env.files.is_empty()) as u64;
        st.dim_cargo_vars += (seg.env.junk.len() > 2) as u64;
        st.dim_cpu_pinned += seg.env.cpus.is_some() as u64;
        st.dim_hostname_uid += (seg.env.hostname.is_some() || seg.env.uid.is_some()) as u64;
        st.dim_cwd_subdir += seg.env.cwd.is_some() as u64;
        st.dim_tty += seg.env.tty as u64;
        st.dim_rlimits += seg.env.rlimits.is_some() as u64;
        st.dim_clock_rate += seg.env.clock_step.is_some() as u64;
        st.dim_toolbin += seg.env.toolbin.is_some() as u64;
        st.dim_config_files += seg.env.files.iter().any(|(f, _)| !f.ends_with("Cargo.toml")) as u64;
        st.long_processes += (seg.sched.requests.len() >= 1000) as u64;
        st.entropy_seeds.insert(seg.env.entropy_seed);
        let layout = fnv(
            format!(
                "{:?}|{}|{}|{}",
                seg.sched.prealloc,
                seg.sched.stack_pad,
                seg.sched.worker_stack_kb,
                seg.env.junk.iter().map(|(k, v)| k.len() + v.len() + 2).sum::<usize>()
            )
            .as_bytes(),
        );
        st.layouts.insert(layout);
        let mut hist = fnv(&seg.env.entropy_seed.to_le_bytes());
        st.fault_requests_issued += seg.sched.requests.iter().filter(|r| r.k < seg.sched.keys.len() && is_fault_key(&seg.sched.keys[r.k])).count() as u64;
        st.kill_requests_issued += seg.sched.requests.iter().filter(|r| r.mode == Mode::Kill).count() as u64;
        for o in obs.iter() {
            st.requests += 1;
            let key = &seg.sched.keys[o.k];
            let kh = key_hash(key);
            match o.class.as_str() {
                "OK" => st.ok += 1,
                "ERR" | "LEX" => st.diagnostics += 1,
                "PANIC" => {
                    if o.died {
                        st.worker_crashes += 1
                    } else {
                        st.panics_caught += 1
                    }
                }
                _ => {}
            }
            let ctx_hash = fnv(format!("{kh}|{hist}|{}|{}|{layout}", o.w, o.gen).as_bytes());
            if st.contexts.insert(ctx_hash) {
                *st.key_contexts.entry(kh).or_default() += 1;
            }
            st.keys_seen.insert(kh);
            hist = fnv(format!("{hist}|{kh}|{}", o.w).as_bytes());
            session_digest = fnv(format!("{session_digest}|{}|{}|{}", o.k, o.class, o.digest).as_bytes());
            let r = match refs.get(ctx, key) {
                Ok(r) => r,
                Err(e) => {
                    st.errors.push(format!("reference for {:?}: {}", key, e));
                    return;
                }
            };
            if r.class != o.class || r.digest != o.digest {
                if st.divergences.len() < 8 {
                    st.divergences.push((
                        Divergence {
                            session: s.index,
                            segment: si,
                            seq: o.seq,
                            key: key.clone(),
                            expected: (r.class.clone(), r.digest.clone()),
                            observed: (o.class.clone(), o.digest.clone()),
                        },
                        s.clone(),
                    ));
                }
                // one divergence per session is enough
                st.digest = st.digest.wrapping_add(session_digest | 1);
                return;
            }
        }
    }
    st.digest = st.digest.wrapping_add(session_digest | 1);
}

// ------------------------------------------------------------------ minimisation and replay

#[derive(Clone, Debug, Serialize, Deserialize)]
pub struct Replay {
    pub property: String,
    pub engine: String,
    pub layer: String,
    pub seed: u64,
    pub session: u64,
    pub what: String,
    /// process segments run before, in order, over the same durable directory (restarts: only what
    /// is on disk survives); empty unless the divergence needs state left on disk
    #[serde(default)]
    pub prefix_segments: Vec<Segment>,
    pub env: Env,
    pub sched: Schedule,
    /// index (in `sched.requests`) of the request whose observation diverges
    pub probe: usize,
    pub expected_class: String,
    pub expected_text: Option<String>,
    pub observed_class: String,
    pub observed_text: Option<String>,
    pub minimise_steps: usize,
    pub original_requests: usize,
    /// build of the same sources that computed the reference, when it was not the session's own
    #[serde(default)]
    pub ref_exe: Option<String>,
}

/// Does the last request of `sched` (the probe) diverge from the pristine reference, when run after
/// `prefix` segments over one fresh durable directory?
fn probe_diverges(ctx: &Ctx, refs: &RefCache, prefix: &[Segment], env: &Env, sched: &Schedule) -> Option<bool> {
    // up to three attempts: if the code under simulation is itself racy, one run may happen to agree
    let mut any = None;
    for _ in 0..3 {
        let dur = Durable::new(ctx, "min");
        for seg in prefix {
            run_child(ctx, &seg.env, &seg.sched, &dur).ok()?;
        }
        let out = run_child(ctx, env, sched, &dur).ok()?;
        let last = out.obs.last()?;
        let key = &sched.keys[last.k];
        let r = refs.get(ctx, key).ok()?;
        if r.class != last.class || r.digest != last.digest {
            return Some(true);
        }
        any = Some(false);
        if ctx.racy.load(std::sync::atomic::Ordering::Relaxed) == 0 {
            break;
        }
    }
    any
}

pub fn minimise(ctx: &Ctx, refs: &RefCache, d: &Divergence, s: &Session, seed: u64) -> Replay {
    let seg = &s.segments[d.segment];
    let env = seg.env.clone();
    // the stream up to and including the diverging request
    let mut sched = seg.sched.clone();
    sched.requests.truncate(d.seq + 1);
    let original = sched.requests.len();
    let mut steps = 0usize;
    // earlier process segments of the session matter only through what they left on disk
    let mut prefix_segments: Vec<Segment> = s.segments[..d.segment].to_vec();
    if !prefix_segments.is_empty() && probe_diverges(ctx, refs, &[], &env, &sched) == Some(true) {
        prefix_segments.clear();
        steps += 1;
    }
    let prefix_segments = prefix_segments;
    let fails = |sc: &Schedule| probe_diverges(ctx, refs, &prefix_segments, &env, sc) == Some(true);
    if !fails(&sched) {
        // does not reproduce in isolation from later requests?! keep as is (reported by replay check)
    } else {
        // 1. the probe alone
        let mut alone = sched.clone();
        let probe = alone.requests.pop().unwrap();
        alone.requests = vec![probe.clone()];
        if fails(&alone) {
            steps += 1;
            sched = alone;
        } else {
            // 2. delta-debug the prefix (probe stays last)
            let mut prefix: Vec<Request> = sched.requests[..sched.requests.len() - 1].to_vec();
            let mut chunk = (prefix.len() / 2).max(1);
            // bounded: every attempt is a fresh process serving up to the whole prefix
            let mut attempts = 0usize;
            while chunk >= 1 && !prefix.is_empty() && attempts < 160 {
                let mut i = 0;
                let mut progressed = false;
                while i < prefix.len() && attempts < 160 {
                    attempts += 1;
                    let mut cand = prefix.clone();
                    let end = (i + chunk).min(cand.len());
                    cand.drain(i..end);
                    let mut sc = sched.clone();
                    sc.requests = cand.iter().cloned().chain(std::iter::once(probe.clone())).collect();
                    if fails(&sc) {
                        prefix = cand;
                        steps += 1;
                        progressed = true;
                    } else {
                        i += chunk;
                    }
                }
                if chunk == 1 && !progressed {
                    break;
                }
                chunk = if chunk > 1 { chunk / 2 } else { 1 };
            }
            sched.requests = prefix.into_iter().chain(std::iter::once(probe)).collect();
        }
        // 3. one worker, no displacement, no kills
        let mut c = sched.clone();
        c.workers = 1;
        for r in c.requests.iter_mut() {
            r.w = 0;
        }
        if c != sched && fails(&c) {
            sched = c;
            steps += 1;
        }
        let mut c = sched.clone();
        c.prealloc.clear();
        c.stack_pad = 0;
        if c != sched && fails(&c) {
            sched = c;
            steps += 1;
        }
        let mut c = sched.clone();
        for r in c.requests.iter_mut() {
            r.mode = Mode::Catch;
        }
        if c != sched && fails(&c) {
            sched = c;
            steps += 1;
        }
    }
    // drop unused keys (renumber) — re-verified, since the size of the plan itself moves the heap
    {
        let mut c = sched.clone();
        let mut used: Vec<usize> = c.requests.iter().map(|r| r.k).collect();
        used.sort();
        used.dedup();
        let remap: BTreeMap<usize, usize> = used.iter().enumerate().map(|(n, o)| (*o, n)).collect();
        c.keys = used.iter().map(|o| c.keys[*o].clone()).collect();
        for r in c.requests.iter_mut() {
            r.k = remap[&r.k];
        }
        if c != sched && fails(&c) {
            sched = c;
            steps += 1;
        }
    }
    // 4. simpler environment
    let mut env_min = env.clone();
    let mut try_env = |e: Env, env_min: &mut Env, steps: &mut usize| {
        if e != *env_min && probe_diverges(ctx, refs, &prefix_segments, &e, &sched) == Some(true) {
            *env_min = e;
            *steps += 1;
        }
    };
    let mut e = env_min.clone();
    e.junk.clear();
    try_env(e, &mut env_min, &mut steps);
    // otherwise drop the variables one at a time
    let mut i = 0;
    while i < env_min.junk.len() {
        let mut e = env_min.clone();
        e.junk.remove(i);
        let before = env_min.junk.len();
        try_env(e, &mut env_min, &mut steps);
        if env_min.junk.len() == before {
            i += 1;
        }
    }
    let mut e = env_min.clone();
    e.cwd = None;
    try_env(e, &mut env_min, &mut steps);
    let mut e = env_min.clone();
    e.cpus = None;
    try_env(e, &mut env_min, &mut steps);
    let mut e = env_min.clone();
    e.host = None;
    try_env(e, &mut env_min, &mut steps);
    let mut e = env_min.clone();
    e.hostname = None;
    try_env(e, &mut env_min, &mut steps);
    let mut e = env_min.clone();
    e.args.clear();
    try_env(e, &mut env_min, &mut steps);
    let mut e = env_min.clone();
    e.tty = false;
    try_env(e, &mut env_min, &mut steps);
    let mut e = env_min.clone();
    e.rlimits = None;
    try_env(e, &mut env_min, &mut steps);
    let mut e = env_min.clone();
    e.clock_step = None;
    try_env(e, &mut env_min, &mut steps);
    let mut e = env_min.clone();
    e.toolbin = None;
    try_env(e, &mut env_min, &mut steps);
    let mut e = env_min.clone();
    e.uid = None;
    try_env(e, &mut env_min, &mut steps);
    let mut e = env_min.clone();
    e.manifest_dir = None;
    try_env(e, &mut env_min, &mut steps);
    let mut i = 0;
    while i < env_min.files.len() {
        let mut e = env_min.clone();
        e.files.remove(i);
        let before = env_min.files.len();
        try_env(e, &mut env_min, &mut steps);
        if env_min.files.len() == before {
            i += 1;
        }
    }
    let mut e = env_min.clone();
    e.clock_base = None;
    try_env(e, &mut env_min, &mut steps);
    let mut e = env_min.clone();
    e.fake_pid = None;
    try_env(e, &mut env_min, &mut steps);
    let mut e = env_min.clone();
    e.entropy_seed = 0;
    try_env(e, &mut env_min, &mut steps);

    // texts for the report
    let mut dump = sched.clone();
    dump.dump_text = true;
    let dumped = (|| {
        let dur = Durable::new(ctx, "dmp");
        for seg in &prefix_segments {
            run_child(ctx, &seg.env, &seg.sched, &dur).ok()?;
        }
        run_child(ctx, &env_min, &dump, &dur).ok()
    })();
    let (oc, ot) = match dumped {
        Some(out) => {
            let l = out.obs.last().unwrap();
            (l.class.clone(), l.text.clone())
        }
        None => (d.observed.0.clone(), None),
    };
    let pk = sched.keys[sched.requests.last().unwrap().k].clone();
    let (ec, et) = match reference(ctx, &pk, true) {
        Ok((r, t)) => (r.class, t),
        Err(_) => (d.expected.0.clone(), None),
    };
    let mut what = describe(&env_min, &sched, &ec, &oc);
    if !prefix_segments.is_empty() {
        what.push_str(&format!("; needs the state left on disk by {} earlier process(es) of the session", prefix_segments.len()));
    }
    Replay {
        property: "C19".into(),
        engine: "sessim".into(),
        layer: "A1-native-session".into(),
        seed,
        session: s.index,
        what,
        prefix_segments: prefix_segments.clone(),
        env: env_min,
        probe: sched.requests.len() - 1,
        sched,
        expected_class: ec,
        expected_text: et,
        observed_class: oc,
        observed_text: ot,
        minimise_steps: steps,
        original_requests: original,
        ref_exe: ctx.ref_exe.clone(),
    }
}

fn describe(env: &Env, sched: &Schedule, ec: &str, oc: &str) -> String {
    let k = &sched.keys[sched.requests.last().unwrap().k];
    let n = sched.requests.len();
    let why = if n == 1 && env.entropy_seed != 0 && env.junk.is_empty() {
        "depends on the process's entropy (hash seeds)"
    } else if n == 1 && env.tty {
        "depends on whether the compiler's standard streams are a terminal"
    } else if n == 1 && env.rlimits.is_some() {
        "depends on the process's resource limits"
    } else if n == 1 && env.toolbin.is_some() {
        "depends on the programs found on PATH (answers of `rustc --version` and the like)"
    } else if n == 1 && env.clock_step.is_some() {
        "depends on how fast the clock moves (elapsed time)"
    } else if n == 1 && env.host.is_some() {
        "depends on the name of the host executable"
    } else if n == 1 && !env.files.is_empty() {
        "depends on a file found on disk (the user's manifest, lock file, cargo / toolchain configuration)"
    } else if n == 1 && !env.junk.is_empty() {
        "depends on the process environment (environment variables / block size)"
    } else if n == 1 {
        "depends on the process environment"
    } else {
        "depends on what was expanded before it in the same process"
    };
    format!(
        "derive({}) on `{}`: expansion {} — expected class {}, observed {} after {} preceding request(s), entropy seed {}",
        k.derive,
        truncate(&k.item, 120),
        why,
        ec,
        oc,
        n - 1,
        env.entropy_seed
    )
}

fn truncate(s: &str, n: usize) -> String {
    if s.len() <= n {
        s.to_string()
    } else {
        let mut cut = n;
        while !s.is_char_boundary(cut) {
            cut -= 1;
        }
        format!("{}…", &s[..cut])
    }
}

/// Re-run a replay file from scratch; true = the divergence reproduces. The verdict comes from the
/// plan exactly as recorded (the plan's own size and the text dump move the heap, which address-
/// dependent code can observe); a second run with text dump is informational only.
pub fn replay(ctx: &Ctx, rp: &Replay) -> Result<(bool, Value), String> {
    let run = |sched: &Schedule| -> Result<ChildOut, String> {
        let dur = Durable::new(ctx, "rpl");
        for seg in &rp.prefix_segments {
            run_child(ctx, &seg.env, &seg.sched, &dur)?;
        }
        run_child(ctx, &rp.env, sched, &dur)
    };
    // up to eight attempts: racy code under simulation need not diverge on every run
    let mut out = run(&rp.sched)?;
    let mut attempts = 1;
    let (r, rt, diverges) = loop {
        let o = out.obs.get(rp.probe).ok_or("probe index out of range")?;
        let key = &rp.sched.keys[o.k];
        let (r, rt) = reference(ctx, key, true)?;
        let d = r.class != o.class || r.digest != o.digest;
        if d || attempts >= 8 {
            break (r, rt, d);
        }
        attempts += 1;
        out = run(&rp.sched)?;
    };
    let o = out.obs.get(rp.probe).ok_or("probe index out of range")?;
    let key = &rp.sched.keys[o.k];
    let mut dump = rp.sched.clone();
    dump.dump_text = true;
    let text = run(&dump).ok().and_then(|out| out.obs.get(rp.probe).and_then(|o| o.text.clone()));
    Ok((
        diverges,
        json!({"key": key, "expected": {"class": r.class, "digest": r.digest, "text": rt},
               "observed": {"class": o.class, "digest": o.digest, "text_of_a_second_run_with_dump": text}, "attempts": attempts,
               "environment_seams_consulted": {"getrandom": out.seams.getrandom, "clock": out.seams.clock, "getpid": out.seams.getpid, "getenv": out.seams.names}}),
    ))
}

/// Replay of a *racy* finding: the same plan, run `attempts` times in fresh processes over fresh durable
/// directories; reproduces if any two runs answer differently.
pub fn replay_racy(ctx: &Ctx, s: &Session, attempts: usize) -> Result<(bool, Value), String> {
    let answers = |outs: &[ChildOut]| outs.iter().flat_map(|o| o.obs.iter().map(|x| (x.k, x.class.clone(), x.digest.clone()))).collect::<Vec<_>>();
    let first = answers(&run_session(ctx, &s.segments)?);
    for n in 1..attempts {
        let again = answers(&run_session(ctx, &s.segments)?);
        if again != first {
            let at = first.iter().zip(again.iter()).position(|(a, b)| a != b);
            let key = at.map(|i| {
                let k = first[i].0;
                s.segments.iter().flat_map(|g| g.sched.keys.get(k)).next().cloned()
            });
            return Ok((true, json!({"runs": n + 1, "first_differing_request": at, "key": key})));
        }
    }
    Ok((false, json!({"runs": attempts})))
}

// ------------------------------------------------------------------ batch driver

pub struct BatchResult {
    pub stats: Stats,
    pub refs: usize,
}

pub fn run_batch(ctx: Arc<Ctx>, corpus: Arc<Corpus>, refs: Arc<RefCache>, seed: u64, start: u64, n: u64, jobs: usize, selfcheck_every: u64, force_sweep: bool) -> BatchResult {
    // the environment sweep rides along with every batch that is large enough to be a check (not the 24-session
    // discovery pre-pass, which gets one round of them so that what the wide items make the code read is discovered): n/4 sessions, at least one per forced value
    let sweep = if n >= 96 { (n / 4).max(ENVSWEEP_CASES as u64) } else if force_sweep { ENVSWEEP_CASES as u64 } else { 0 };
    let sweep_from = start / 4;
    let next = Arc::new(Mutex::new(start));
    let mut handles = Vec::new();
    for _ in 0..jobs {
        let (ctx, corpus, refs, next) = (ctx.clone(), corpus.clone(), refs.clone(), next.clone());
        handles.push(std::thread::spawn(move || {
            let mut st = Stats::default();
            loop {
                let i = {
                    let mut g = next.lock().unwrap();
                    if *g >= start + n + sweep {
                        break;
                    }
                    let i = *g;
                    *g += 1;
                    if i >= start + n { ENVSWEEP_BASE + sweep_from + (i - start - n) } else { i }
                };
                let s = gen_session(seed, i, &corpus);
                // (flood sessions are the costliest by far: one in five of them is run twice)
                let selfcheck = selfcheck_every > 0 && i % selfcheck_every == 0 && (i % 12 != 8 || (i / 12) % 5 == 0);
                check_session(&ctx, &refs, &s, &mut st, selfcheck);
            }
            st
        }));
    }
    let mut total = Stats::default();
    for h in handles {
        let s = h.join().expect("driver thread");
        total.sessions += s.sessions;
        total.processes += s.processes;
        total.requests += s.requests;
        total.ok += s.ok;
        total.diagnostics += s.diagnostics;
        total.panics_caught += s.panics_caught;
        total.worker_crashes += s.worker_crashes;
        total.process_restarts += s.process_restarts;
        total.multi_worker_sessions += s.multi_worker_sessions;
        total.clock_skewed += s.clock_skewed;
        total.pid_faked += s.pid_faked;
        total.selfchecked += s.selfchecked;
        total.seam_getrandom += s.seam_getrandom;
        total.seam_clock += s.seam_clock;
        total.seam_getpid += s.seam_getpid;
        total.seam_getenv += s.seam_getenv;
        total.seam_names.extend(s.seam_names);
        total.dim_host_named += s.dim_host_named;
        total.dim_manifest_on_disk += s.dim_manifest_on_disk;
        total.dim_cargo_vars += s.dim_cargo_vars;
        total.dim_cpu_pinned += s.dim_cpu_pinned;
        total.dim_hostname_uid += s.dim_hostname_uid;
        total.dim_cwd_subdir += s.dim_cwd_subdir;
        total.long_processes += s.long_processes;
        total.fault_requests_issued += s.fault_requests_issued;
        total.kill_requests_issued += s.kill_requests_issued;
        total.dim_tty += s.dim_tty;
        total.dim_rlimits += s.dim_rlimits;
        total.dim_clock_rate += s.dim_clock_rate;
        total.dim_toolbin += s.dim_toolbin;
        total.dim_config_files += s.dim_config_files;
        total.racy_sessions += s.racy_sessions;
        total.sut_threaded_sessions += s.sut_threaded_sessions;
        total.racy_evidence.extend(s.racy_evidence);
        total.seam_threads_surplus += s.seam_threads_surplus;
        total.entropy_seeds.extend(s.entropy_seeds);
        total.layouts.extend(s.layouts);
        for (k, v) in s.key_contexts {
            // contexts are per-thread sets; a context seen by two threads is counted once below
            *total.key_contexts.entry(k).or_default() += v;
        }
        total.contexts.extend(s.contexts);
        total.keys_seen.extend(s.keys_seen);
        total.divergences.extend(s.divergences);
        total.nondeterministic.extend(s.nondeterministic);
        total.errors.extend(s.errors);
        total.digest = total.digest.wrapping_add(s.digest);
    }
    total.divergences.sort_by_key(|(d, _)| (d.session, d.segment, d.seq));
    BatchResult {
        refs: refs.len(),
        stats: total,
    }
}
