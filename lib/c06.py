"""C06 — derive_more::Debug is indistinguishable from std Debug. Engine: fmtsim (DESIGN.md §3)."""
import glob, json, os, shutil, time
from common import *

CRATE = os.path.join(VERIF, "fmtsim")
BIN = os.path.join(BUILD, "fmtsim", "release", "fmtsim")

# probes that must be non-zero for a run to count (reach is measured, not assumed)
REQUIRED_PROBES = [
    ("faults", "sink_full", "fired"), ("faults", "sink_once", "fired"), ("faults", "script_fail", "fired"),
    ("faults", "sink_fault_position", "inside_field"), ("faults", "sink_fault_position", "before_first_field"),
    ("faults", "sink_fault_position", "between_fields_or_closer"),
    ("probes", "newline_at_chunk_end_pretty"), ("probes", "newline_mid_chunk_pretty"), ("probes", "nested_builder_depth_ge2"),
    ("probes", "non_exhaustive_closer_pretty"), ("probes", "non_exhaustive_closer_plain"), ("probes", "empty_name_one_tuple"),
    ("probes", "zero_field_builder"), ("probes", "options_echo_nondefault"), ("probes", "hex_spec"), ("probes", "nested_context"), ("probes", "ill_behaved_party_continued_after_error"),
]


GEN_CORPUS = os.path.join(CRATE, "src", "generated", "corpus.rs")


def gen(corpus_seed, random_types, exclude=()):
    rc, out = sh(["python3", os.path.join(CRATE, "gen.py"), "--corpus-seed", str(corpus_seed), "--random-types", str(random_types),
                  "--exclude", ",".join(str(x) for x in sorted(exclude))])
    if rc != 0:
        raise Harness("gen.py failed:\n" + out)


def cargo_build():
    shutil.copyfile("/repo/Cargo.lock", os.path.join(CRATE, "Cargo.lock"))
    return sh(["cargo", "build", "--release", "--offline", "--target-dir", os.path.join(BUILD, "fmtsim")], cwd=CRATE)


def attribute_errors(out):
    """Map rustc errors to corpus types. Returns ({type idx: first error text}, unattributed?)"""
    import re
    markers = []  # (line, idx, module)
    for n, line in enumerate(open(GEN_CORPUS), 1):
        m = re.match(r"\s*// @type (\d+) (\w+)", line)
        if m:
            markers.append((n, int(m.group(1)), m.group(2)))
    names = {}
    txt = open(GEN_CORPUS).read()
    mm = re.search(r"pub static TYPE_NAMES: \[&str; N_TYPES\] = \[(.*?)\];", txt, re.S)
    if mm:
        for i, n in enumerate(re.findall(r'"((?:[^"\\\\]|\\\\.)*)"', mm.group(1))):
            names[n] = i
    by_type, other = {}, False
    blocks = re.split(r"\n(?=error)", out)
    for b in blocks:
        if not b.startswith("error") or b.startswith("error: could not compile") or b.startswith("error: aborting"):
            continue
        locs = re.findall(r"--> src/generated/corpus\.rs:(\d+):", b)
        if not locs:
            other = True
            continue
        ln = int(locs[0])
        prev = [m for m in markers if m[0] <= ln]
        if prev and prev[-1][2] == "dm":
            by_type.setdefault(prev[-1][1], b.strip()[:1500])
            continue
        # knock-on error at the dispatch arm of this type's derive_more twin (the impl exists but its bounds
        # cannot be met, or there is none)
        src_lines = txt.split("\n")
        if 0 < ln <= len(src_lines):
            dm_arm = re.search(r"\(Module::Dm, (\d+)\) =>", src_lines[ln - 1])
            if dm_arm:
                by_type.setdefault(int(dm_arm.group(1)), b.strip()[:1500])
                continue
        # knock-on error outside the module: "`dm::X` doesn't implement `Debug`" (the derive produced no impl)
        m = re.search(r"`dm::((?:r#)?\w+)(?:<[^`]*>)?` doesn't implement `Debug`", b)
        if m and m.group(1) in names:
            by_type.setdefault(names[m.group(1)], b.strip()[:1500])
            continue
        other = True
    return by_type, other


def build(corpus_seed, random_types):
    """Builds fmtsim. Returns {type idx: rustc error} for corpus types on which derive_more::Debug does not
    compile although the reference twins do (those derives are then replaced by the reference impl so that
    the rest of the corpus can still be simulated)."""
    failing = {}
    for _ in range(6):
        gen(corpus_seed, random_types, failing.keys())
        rc, out = cargo_build()
        if rc == 0:
            return failing
        by_type, other = attribute_errors(out)
        if other or not by_type or all(t in failing for t in by_type):
            raise Harness("fmtsim does not build against /repo's working tree (corpus seed %d):\n%s" % (corpus_seed, out[-6000:]))
        failing.update(by_type)
    raise Harness("fmtsim: too many rounds of corpus types failing to compile: %s" % sorted(failing))


KFW = os.path.join(CRATE, "kfwitness")


def kf_witnesses():
    """Compiles the witness inputs of the open compile-time findings against /repo's working tree, each on its own
    (rustc stops at the first failing phase). Returns {witness id: rustc's errors | None (compiles)}."""
    import re, concurrent.futures as cf
    shutil.copyfile("/repo/Cargo.lock", os.path.join(KFW, "Cargo.lock"))
    target = os.path.join(BUILD, "kfwitness")
    rc, out = sh(["cargo", "build", "--offline", "--target-dir", target], cwd=KFW)
    if rc != 0:
        raise Harness("kfwitness (std twins only) does not build:\n" + out[-4000:])
    deps = os.path.join(target, "debug", "deps")
    rl = sorted((f for f in os.listdir(deps) if re.match(r"libderive_more-[0-9a-f]+\.rlib$", f)), key=lambda f: os.path.getmtime(os.path.join(deps, f)))
    if not rl:
        raise Harness("kfwitness: no libderive_more rlib under " + deps)
    src = os.path.join(KFW, "src", "lib.rs")
    ids = re.findall(r"// @witness (\S+) dm", open(src).read())

    def one(w):
        rc, out = sh(["rustc", "--edition", "2021", "--crate-type", "lib", "--crate-name", "kfwitness", "--emit=metadata", "--cfg", 'w="%s"' % w,
                      "-L", "dependency=" + deps, "--extern", "derive_more=" + os.path.join(deps, rl[-1]),
                      "-o", os.path.join(target, "w-%s.rmeta" % w), src])
        if rc == 0:
            return w, None
        errs = [b.strip()[:900] for b in re.split(r"\n(?=error)", out) if b.startswith("error") and not b.startswith("error: aborting") and not b.startswith("error: could not compile")]
        if not errs:
            raise Harness("kfwitness %s: rustc failed without an error:\n%s" % (w, out[-2000:]))
        return w, "\n".join(errs)[:3000]

    with cf.ThreadPoolExecutor(max_workers=8) as ex:
        return dict(ex.map(one, ids))


def corpus_src(idx):
    import re
    txt = open(GEN_CORPUS).read()
    m = re.search(r"pub static TYPE_SRCS: \[&str; N_TYPES\] = \[\n(.*?)\n\];", txt, re.S)
    return None if not m else m.group(1).split(",\n")[idx]


def run_batch(seed, cases, threads, tag, start=0):
    out = os.path.join(BUILD, "fmtsim-%s.json" % tag)
    rc, o = sh([BIN, "run", "--seed", str(seed), "--cases", str(cases), "--start", str(start), "--threads", str(threads),
                "--out", out, "--replay-dir", REPLAYS])
    if rc not in (0, 1, 2) or not os.path.exists(out):
        raise Harness("fmtsim run crashed (rc=%s):\n%s" % (rc, o[-4000:]))
    s = json.load(open(out))
    s["_rc"] = rc
    return s


def get(d, path):
    for p in path:
        d = d[p]
    return d


def main(tier, seed, replay):
    t0 = time.time()
    try:
        if replay:
            return do_replay(replay)
        return do_check(tier, seed, t0)
    except Harness as e:
        log("HARNESS ERROR (exit 2): %s" % e)
        return 2


def do_replay(path):
    v = json.load(open(path))
    cs = v.get("corpus_seed", 1)
    failing = build(cs, v.get("corpus_random_types", 140))
    if v.get("kind") == "kf-witness":
        err = kf_witnesses().get(v["witness"])
        listed = [w for f in known_findings("C06") for w in f.get("witnesses", []) if w["id"] == v["witness"]]
        if err is not None and not (listed and listed[0]["rustc_error_contains"] in err):
            print(err)
            print("VIOLATION property=C06 replay=%s" % path)
            return 1
        print("witness %s: %s" % (v["witness"], "compiles" if err is None else "fails as the recorded finding says"))
        return 0
    if v.get("kind") == "does-not-compile":
        if v["type_idx"] in failing:
            print(failing[v["type_idx"]])
            print("VIOLATION property=C06 replay=%s" % path)
            return 1
        print("corpus type %d compiles under derive_more::Debug" % v["type_idx"])
        return 0
    rc, out = sh([BIN, "replay", path])
    print(out, end="")
    return rc


def do_check(tier, seed, t0):
    os.makedirs(REPLAYS, exist_ok=True)
    if tier == "quick":
        plan = [(1, 140, 1_000_000)]
    else:
        # several corpora (the expansion half of the property), many more runs each
        plan = [(1, 140, 12_000_000), (1000 + seed, 400, 12_000_000), (2000 + seed, 400, 12_000_000), (3000 + seed, 400, 12_000_000)]
    totals = None
    batches = []
    viol_lines = []
    kf_seen = None
    sim_s = 0.0
    for (cseed, rtypes, cases) in plan:
        failing = build(cseed, rtypes)
        for idx, err in sorted(failing.items()):
            path = os.path.join(REPLAYS, "C06-%d-compile-c%d-t%d.json" % (seed, cseed, idx))
            json.dump({"property": "C06", "engine": "fmtsim", "kind": "does-not-compile", "seed": seed, "corpus_seed": cseed, "corpus_random_types": rtypes,
                       "type_idx": idx, "type_src": corpus_src(idx),
                       "what": "derive_more::Debug does not compile on a type that std's derive / the reference impl accepts, so it cannot print what std prints",
                       "rustc_error": err}, open(path, "w"), indent=1, ensure_ascii=False)
            viol_lines.append("VIOLATION property=C06 replay=%s" % path)
            log("  %s: derive_more::Debug does not compile on corpus type %d" % (path, idx))
        a = run_batch(seed, cases, 16, "a")
        # the simulator must be deterministic first: same seed, other worker count, fresh process
        check_n = cases if tier == "quick" else min(cases, 2_000_000)
        b = run_batch(seed, check_n, 5, "b")
        a2 = a if check_n == cases else run_batch(seed, check_n, 16, "a2")
        if a2["digest"] != b["digest"] or a2["verdicts_excluding_address_bearing_cases"] != b["verdicts_excluding_address_bearing_cases"]:
            raise Harness("simulator is not deterministic: digest %s (16 workers) vs %s (5 workers)" % (a2["digest"], b["digest"]))
        if a["_rc"] == 2 or a["harness_error"]:
            raise Harness("self-check failed: hand-written reference differs from std's derive: %s" % json.dumps(a["harness_error"])[:2000])
        for path in REQUIRED_PROBES:
            if get(a, path) == 0:
                raise Harness("reach probe %s is zero — workload or fault mix does not reach it" % "/".join(path))
        sim_s += a["run_s"]
        batches.append({k: a[k] for k in ("corpus_seed", "corpus_types", "corpus_types_hit", "corpus_types_with_std_derive_twin", "cases",
                                          "verdicts", "distinct_states", "digest", "run_s")})
        for v in a["violations"]:
            # replay the minimised file in a fresh process; it must fail the same way
            rc, out = sh([BIN, "replay", v["replay"]])
            if rc != 1:
                raise Harness("violation %s did not reproduce on replay (rc=%d)" % (v["replay"], rc))
            r = json.load(open(v["replay"]))
            r["corpus_random_types"] = rtypes
            json.dump(r, open(v["replay"], "w"), indent=1, ensure_ascii=False)
            viol_lines.append("VIOLATION property=C06 replay=%s" % v["replay"])
            log("  %s: %s" % (v["replay"], v["what"]))
        if a["known_finding"] and kf_seen is None:
            kf_seen = a["known_finding"]
        if totals is None:
            totals = a
        else:
            for grp in ("layers", "verdicts", "probes"):
                for k in a[grp]:
                    totals[grp][k] += a[grp][k]
            for k in ("sink_full", "sink_once", "script_fail", "sink_fault_position"):
                for kk in a["faults"][k]:
                    totals["faults"][k][kk] += a["faults"][k][kk]
            totals["faults"]["both_sides_err"] += a["faults"]["both_sides_err"]
            totals["cases"] += a["cases"]
            totals["fault_free_cases"] += a["fault_free_cases"]
            totals["distinct_states"] += a["distinct_states"]  # states include the corpus type index; corpora differ
            for k in a["fault_point_enumeration"]:
                totals["fault_point_enumeration"][k] += a["fault_point_enumeration"][k]
        if viol_lines:
            break

    # known findings: excused only through the defect model, and only if listed
    listed = {f["id"]: f for f in known_findings("C06")}
    kf_count = totals["verdicts"]["known_finding"] + totals["fault_point_enumeration"]["known_finding"]
    kf_lines = []
    if kf_count and kf_seen is None:
        raise Harness("known-finding matches only among enumerated fault points and none among %d sampled runs" % totals["cases"])
    if kf_count:
        kid = kf_seen["id"]
        if kid in listed:
            kf_lines.append("KNOWN-FINDING: property=C06 %s: %s [%d of %d runs; minimal witness: spec %s]" % (
                kid, listed[kid]["identified_by"], kf_count, totals["cases"], kf_seen["minimised"]["case"]["spec"]))
        else:
            # the model matched but the finding is not (or no longer) recorded as open: a plain violation
            path = os.path.join(REPLAYS, "C06-%d-unlisted-%s.json" % (seed, kid))
            json.dump({"property": "C06", "engine": "fmtsim", "seed": seed, "corpus_seed": totals["corpus_seed"],
                       "what": "matches defect model %s, which known_findings.json does not list as open" % kid,
                       "case": kf_seen["minimised"]["case"], "derive_more": kf_seen["minimised"]["derive_more"],
                       "reference": kf_seen["minimised"]["reference"]}, open(path, "w"), indent=1, ensure_ascii=False)
            viol_lines.append("VIOLATION property=C06 replay=%s" % path)

    # findings that show at compile time: their witness inputs, compiled against the working tree
    wit = kf_witnesses()
    claimed = set()
    for kid, f in listed.items():
        failing_w = []
        for w in f.get("witnesses", []):
            claimed.add(w["id"])
            err = wit.get(w["id"])
            if err is None:
                continue
            if w["rustc_error_contains"] in err:
                failing_w.append(w["id"])
            else:
                path = os.path.join(REPLAYS, "C06-%d-witness-%s.json" % (seed, w["id"]))
                json.dump({"property": "C06", "engine": "fmtsim", "kind": "kf-witness", "seed": seed, "witness": w["id"],
                           "what": "witness input of %s fails to compile in another way than the recorded finding" % kid, "rustc_error": err},
                          open(path, "w"), indent=1, ensure_ascii=False)
                viol_lines.append("VIOLATION property=C06 replay=%s" % path)
        if failing_w:
            kf_lines.append("KNOWN-FINDING: property=C06 %s: derive_more::Debug does not compile on %d witness input(s) std's derive accepts (%s): %s" % (
                kid, len(failing_w), ", ".join(failing_w), f["identified_by"][:300]))
    for w, err in wit.items():
        if err is not None and w not in claimed:
            path = os.path.join(REPLAYS, "C06-%d-witness-%s.json" % (seed, w))
            json.dump({"property": "C06", "engine": "fmtsim", "kind": "kf-witness", "seed": seed, "witness": w,
                       "what": "witness input fails to compile and no open finding lists it", "rustc_error": err}, open(path, "w"), indent=1, ensure_ascii=False)
            viol_lines.append("VIOLATION property=C06 replay=%s" % path)

    wall = time.time() - t0
    n = totals["cases"]
    enum = totals["fault_point_enumeration"]
    coverage = {
        "evaluations": n + enum["sink_fault_points"] + enum["field_failure_points"],
        "distinct_nontrivial": totals["distinct_states"],
        "rule": "one evaluation = one seeded simulated run: a builder history (derive_more::__private::debug_tuple / field^k / finish|finish_non_exhaustive) "
                "or a value of a twin-corpus type, whose fields are scripted foreign Debug parties (seeded chunk schedule over write_str/write_char/write_fmt/pad/"
                "pad_integral/integer-float-str Debug/option echo/nested core builders/nested builder-under-test, optional Err at step j), under one of 1440 caller specs "
                "with run-time width/precision, one of 7 nesting contexts, and a sink that is unlimited, full after N bytes, or fails once at byte N; judged against core's "
                "DebugTuple/DebugStruct resp. std's #[derive(Debug)] on the identical definition under the identical script, spec and fault (sink contents and fmt::Result). "
                "distinct_nontrivial counts distinct abstract states reached: (layer, builder shape or corpus type index, context, spec class (alt,hex,width,prec,fill/align,+,0), "
                "sink fault kind, fired?, fault position class (before first field / between fields or closer / inside a field), field-fault fired?, result, nested builder depth, "
                "newline-at-chunk-end, newline-mid-chunk, non-exhaustive pretty closer, empty-name one-tuple); every state involves the code under test, none is trivial",
        "samples": totals["samples"][:3] + ([kf_seen["minimised"]] if kf_seen else []),
        "batches": batches,
        "simulated_runs_per_hour": int(n / max(sim_s, 1e-9) * 3600),
        "seeds": {"VERIF_SEED": seed, "runs_derive_from": "Rng(VERIF_SEED, run index)", "corpus_seeds": [p[0] for p in plan]},
        "simulated_time": "not applicable — the system under simulation has no clock or timer",
        "fault_kinds_fired": totals["faults"],
        "fault_free_runs": totals["fault_free_cases"],
        "fault_point_enumeration": dict(enum, note="every 64th sampled run is re-run under EVERY sink byte budget 0..len (full and transient) and with a failing step at every position of every top-level field script; counted in evaluations"),
        "reach_probes": totals["probes"],
        "layers": totals["layers"],
        "verdicts": totals["verdicts"],
        "known_finding_witnesses": {w: ("compiles" if e is None else e.split("\n")[0][:160]) for w, e in sorted(wit.items())},
        "determinism_selfcheck": "each batch re-run in a fresh process with 5 instead of 16 workers; digests over (index, both sink contents, both results, verdict) equal",
        "components": {
            "real": ["derive_more::__private::{debug_tuple, DebugTuple} and the private Padded adapter (/repo/src/fmt.rs)",
                     "derive_more::Debug proc-macro expansion of every corpus type (/repo/impl/src/fmt/debug.rs), rebuilt from the working tree",
                     "core::fmt (Formatter, builders, integer/float/str Debug) and std's #[derive(Debug)] as reference"],
            "simulated": ["sink (fmt::Write with byte-budget faults)", "field Debug impls (Script parties)", "caller spec / nesting context"],
        },
        "exhaustive": False,
    }
    assumptions = [
        "seeded sampling, not enumeration: a clean batch is evidence, not proof",
        "most field parties propagate the first error, as fmt's contract asks; a seeded share is ill-behaved on purpose (keeps writing after a failed step, returns the error late or swallows it) — std and derive_more get the same party",
        "sink contents under a *field* failure are compared too, which presumes streaming output (derive_more is no_std/no-alloc, so it cannot buffer)",
        "type vocabulary = systematic shapes (all skip subsets up to 3 fields) + seeded random corpus; shapes outside it are not explored",
        "known finding KF1 is excused only when derive_more's output equals the reference adjusted by its defect model byte for byte",
        "known finding KF2 (compile time) is excused only on its listed witness inputs and only while rustc's error is the recorded one; any corpus type that does not compile is a violation",
    ]
    write_evidence("C06", tier, seed, "exploration", coverage, wall, len(viol_lines), assumptions)
    for l in kf_lines:
        print(l)
    for l in viol_lines:
        print(l)
    log("C06 %s: %d runs, %d distinct states, verdicts %s, %.1fs" % (tier, n, totals["distinct_states"], totals["verdicts"], wall))
    return 1 if viol_lines else 0
