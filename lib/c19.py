"""C19 — expansion is a deterministic pure function of the derive input. Engine: sessim (DESIGN.md §2)."""
import json, os, shutil, time
from common import *

CRATE = os.path.join(VERIF, "sessim")
BIN = os.path.join(BUILD, "sessim", "release", "sessim")
SHIM = os.path.join(BUILD, "libverif_env.so")


def build():
    os.makedirs(BUILD, exist_ok=True)
    rc, out = sh(["gcc", "-O2", "-shared", "-fPIC", "-o", SHIM + ".tmp", os.path.join(CRATE, "shim", "entropy.c"), "-lpthread", "-ldl"])
    if rc != 0:
        raise Harness("cannot build the environment shim:\n" + out)
    os.replace(SHIM + ".tmp", SHIM)
    # the real lib.rs, transformed; if that does not build (lib.rs uses something only rustc's bridge offers),
    # fall back to a re-created dispatch (`Output::process` stubbed) rather than giving up on the native layer
    global SHADOW_MODE
    first_err = None
    for mode in ("transform", "dispatch"):
        rc, out = sh(["python3", os.path.join(CRATE, "gen_shadow.py"), "--mode", mode])
        if rc != 0:
            raise Harness("gen_shadow.py failed:\n" + out)
        SHADOW_MODE = json.loads(out.strip().split("\n")[-1])["mode"]
        shutil.copyfile("/repo/Cargo.lock", os.path.join(CRATE, "Cargo.lock"))
        rc, out = sh(["cargo", "build", "--release", "--offline", "--target-dir", os.path.join(BUILD, "sessim")], cwd=CRATE)
        if rc == 0:
            return
        first_err = first_err or out
    raise Harness("the shadow crate does not build from /repo/impl/src:\n" + (first_err or "")[-6000:])


SHADOW_MODE = "transform"


def drive(seed, sessions, start, selfcheck_every, tag, ref_exe=None):
    out = os.path.join(BUILD, "sessim-%s.json" % tag)
    if os.path.exists(out):
        os.remove(out)
    extra = ["--ref-exe", ref_exe] if ref_exe else []
    rc, o = sh([BIN, "drive"] + extra + [ "--seed", str(seed), "--sessions", str(sessions), "--start", str(start), "--jobs", "16",
                "--selfcheck-every", str(selfcheck_every), "--repo", "/repo", "--shim", SHIM, "--tmp-root", os.path.join(BUILD, "sessim-tmp"), "--out", out, "--replay-dir", REPLAYS])
    if not os.path.exists(out):
        raise Harness("sessim drive crashed (rc=%s):\n%s" % (rc, o[-4000:]))
    s = json.load(open(out))
    s["_rc"] = rc
    return s


def main(tier, seed, replay):
    t0 = time.time()
    try:
        if replay:
            build()
            layer = json.load(open(replay)).get("layer")
            if layer == "A3-real-rustc":
                import c19_a3
                return c19_a3.replay(replay)
            if layer == "A2-miri":
                import c19_a2
                return c19_a2.replay(replay)
            rc, out = sh([BIN, "replay", replay, "--shim", SHIM, "--tmp-root", os.path.join(BUILD, "sessim-tmp")])
            print(out, end="")
            return rc
        return do_check(tier, seed, t0)
    except Harness as e:
        log("HARNESS ERROR (exit 2): %s" % e)
        return 2


# reach probes on what the *simulator* did (what the code under simulation answers — a diagnostic, a panic — is its
# own business: turning panics into diagnostics is a legitimate change and must not make the check fail)
REQUIRED = [("faults_issued_by_the_simulator", "requests_for_known_failing_inputs"), ("faults_issued_by_the_simulator", "requests_served_without_catch_unwind"),
            ("faults", "process_restarts"), ("faults", "clock_skewed_processes"), ("faults", "pid_faked_processes"),
            ("multi_worker_processes",), ("distinct_entropy_seeds",), ("distinct_layouts",),
            ("environment_dimensions_exercised", "processes_under_a_host_executable_name"), ("environment_dimensions_exercised", "processes_with_a_manifest_on_disk"),
            ("environment_dimensions_exercised", "processes_with_cargo_variables"), ("environment_dimensions_exercised", "processes_pinned_to_a_cpu_subset"),
            ("environment_dimensions_exercised", "processes_serving_1000_or_more_requests"), ("environment_dimensions_exercised", "processes_on_a_terminal"),
            ("environment_dimensions_exercised", "processes_with_resource_limits"), ("environment_dimensions_exercised", "processes_with_fast_or_jumping_clock"),
            ("environment_dimensions_exercised", "processes_with_stub_programs_on_path"), ("environment_dimensions_exercised", "processes_with_lock_toolchain_or_cargo_config_files")]


def do_check(tier, seed, t0):
    os.makedirs(REPLAYS, exist_ok=True)
    build()
    viol_lines = []
    kf_lines = []
    layers = {}

    # ---- layer A1: native session simulator
    n = 120 if tier == "quick" else 3000
    a = drive(seed, n, 0, 1 if tier == "quick" else 8, "a1")
    if a["error_count"]:
        raise Harness("sessim harness errors: %s" % a["errors"])
    if a["nondeterministic_sessions"]:
        raise Harness("simulator is not deterministic: sessions %s gave different logs when re-run with the same plan" % a["nondeterministic_sessions"][:5])
    for path in REQUIRED:
        d = a
        for p in path:
            d = d[p]
        if not d:
            raise Harness("reach probe %s is zero" % "/".join(path))
    unreproduced = []
    for v in a["violations"]:
        rc, out = sh([BIN, "replay", v["replay"], "--shim", SHIM, "--tmp-root", os.path.join(BUILD, "sessim-tmp")])
        if rc != 1:
            unreproduced.append((v["replay"], rc, out[-1500:]))
            continue
        viol_lines.append("VIOLATION property=C19 replay=%s" % v["replay"])
        log("  %s: %s" % (v["replay"], v["what"]))
    # racy findings: the same plan answered differently in two fresh processes
    for v in a.get("racy_findings", []):
        rc, out = sh([BIN, "replay", v["replay"], "--shim", SHIM, "--tmp-root", os.path.join(BUILD, "sessim-tmp")])
        if rc == 1:
            viol_lines.append("VIOLATION property=C19 replay=%s" % v["replay"])
            log("  %s: identical plans answer differently (the code under simulation is nondeterministic by itself)" % v["replay"])
        else:
            unreproduced.append((v["replay"], rc, out[-800:]))
    if (a["violations"] or a.get("racy_findings")) and not viol_lines:
        # every minimised divergence must replay; if none does, the simulator (not the repo) is at fault
        raise Harness("no divergence reproduced on replay: %s" % unreproduced)
    layers["A1_native_session"] = {k: a[k] for k in a if k not in ("samples", "violations", "errors", "_rc")}

    # ---- layer A3: the real proc-macro dylib inside the real rustc
    import c19_a3
    a3 = None
    if not viol_lines:
        a3 = c19_a3.run(tier, seed, BIN, [x["name"] for x in a["environment_seams_consulted_by_the_code"]["env_names_given_seeded_values"]])
        for v in a3["violations"]:
            if c19_a3.replay_quiet(v["replay"]) != 1:
                raise Harness("A3 violation %s did not reproduce on replay" % v["replay"])
            viol_lines.append("VIOLATION property=C19 replay=%s" % v["replay"])
            log("  %s: %s" % (v["replay"], v["what"]))
        layers["A3_real_rustc"] = {k: a3[k] for k in a3 if k != "violations"}
        if a3["known_finding_matches"]:
            listed = {f["id"]: f for f in known_findings("C19")}
            smp = a3["known_finding_sample"]
            if smp["id"] in listed:
                kf_lines.append("KNOWN-FINDING: property=C19 %s: %s [%d module comparisons differ exactly as the defect model says; e.g. expected %s, observed %s]" % (
                    smp["id"], listed[smp["id"]]["identified_by"][:300], a3["known_finding_matches"], smp["expected_literals"][:1], smp["observed_literals"][:1]))
            else:
                path = os.path.join(REPLAYS, "C19-%d-a3-unlisted-%s.json" % (seed, smp["id"]))
                json.dump({"property": "C19", "engine": "sessim", "layer": "A3-real-rustc", "kind": "unlisted-known-finding", "seed": seed,
                           "what": "matches defect model %s, which known_findings.json does not list as open" % smp["id"], "sample": smp}, open(path, "w"), indent=1, ensure_ascii=False)
                viol_lines.append("VIOLATION property=C19 replay=%s" % path)

    # ---- layer A2 (thorough only): the session inside Miri
    a2 = None
    if tier == "thorough" and not viol_lines:
        import c19_a2
        a2 = c19_a2.run(seed)
        for v in a2["violations"]:
            viol_lines.append("VIOLATION property=C19 replay=%s" % v["replay"])
            log("  %s: %s" % (v["replay"], v["what"]))
        layers["A2_miri_session"] = {k: a2[k] for k in a2 if k != "violations"}

    wall = time.time() - t0
    coverage = {
        "evaluations": a["requests"] + (a3["module_comparisons"] if a3 else 0) + (a2["observations"] if a2 else 0),
        "distinct_nontrivial": a["distinct_nontrivial_contexts"],
        "rule": "one evaluation = one expansion request (derive, item) served by the real expanders of /repo/impl/src inside a simulated compiler session "
                "(1..4 worker threads released one at a time by the simulator; seeded request order, noise requests, repeats; seeded entropy behind an interposed getrandom, "
                "ASLR off + seeded stack/heap displacement, simulated clock and pid, junk environment; faults: diagnostic requests, expander panics caught, worker killed by a panic "
                "and replaced, process restart), its text compared byte for byte with the observation of a pristine one-request process (refinement to a pure function). "
                "distinct_nontrivial counts distinct (key, history-prefix digest, worker, worker generation, layout, entropy seed) contexts whose key was observed in at least two "
                "different contexts in this run, so that the comparison has content",
        "samples": a["samples"],
        "layers": layers,
        "simulated_sessions": a["sessions"],
        "simulated_processes": a["processes"] + a["reference_processes"] + a["selfchecked_processes"],
        "sessions_per_hour": int(a["sessions"] / max(a["run_s"], 1e-9) * 3600),
        "seeds": {"VERIF_SEED": seed, "sessions_derive_from": "Rng(VERIF_SEED, session index)", "distinct_entropy_seeds": a["distinct_entropy_seeds"]},
        "simulated_time": "the expanders read no clock; the simulated clock (seeded base, +1us per call) is offered to them as an environment dimension only",
        "fault_kinds_fired": a["faults"],
        "determinism_selfcheck": "%d session processes re-run in a fresh process with the identical plan; observation logs byte-identical" % a["selfchecked_processes"],
        "shadow_crate_mode": SHADOW_MODE,
        "components": {
            "real": ["every expander module of /repo/impl/src (compiled in-process through a generated #[path] shadow crate, rebuilt from the working tree)", "syn / quote / proc-macro2"],
            "stubbed": ["layer A1: rustc's proc-macro bridge (proc-macro2 fallback token streams) and the `create_derive!` entry points / Output::process (re-created from lib.rs by gen_shadow.py)",
                        "layer A3 stubs nothing: real rustc (nightly, -Zunpretty=expanded), real bridge, the real proc-macro dylib built by cargo from the working tree"],
            "simulated": ["OS entropy (getrandom)", "address-space layout", "clock, pid, environment block", "worker schedule", "expansion history", "faults"],
        },
        "exhaustive": False,
    }
    assumptions = [
        "seeded sampling of sessions, not enumeration",
        "toolchain held fixed: stability of zero-keyed SipHash across Rust releases is outside the statement",
        "only the class of an expander panic is observed (the statement is about token sequences)",
    ]
    write_evidence("C19", tier, seed, "exploration", coverage, wall, len(viol_lines), assumptions)
    for l in kf_lines:
        print(l)
    for l in viol_lines:
        print(l)
    log("C19 %s: %d sessions, %d requests, %d contexts, %.1fs" % (tier, a["sessions"], a["requests"], a["distinct_contexts"], wall))
    return 1 if viol_lines else 0
