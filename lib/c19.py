def main(tier, seed, replay):
    raise SystemExit(2)
