"""Layer A3 of sessim: the real proc-macro dylib inside the real rustc (`-Zunpretty=expanded`, nightly, offline).

The simulator owns: the order of items in the crate, the neighbour set, the process's entropy (interposed
getrandom reaches the dylib through the shared libstd), ASLR (off) and the environment block. Each item lives
in its own `mod case_<id>`; the expanded crate is split on those modules and every module's text must be
identical in every variant it occurs in (reference = canonical order, all items, entropy seed 0).
"""
import concurrent.futures as cf
import hashlib, json, os, platform, re, shutil, subprocess, time
from common import *

HOST = os.path.join(VERIF, "sessim", "a3host")
TARGET = os.path.join(BUILD, "a3")
WORK = os.path.join(BUILD, "a3work")
SHIM = os.path.join(BUILD, "libverif_env.so")
MASK = (1 << 64) - 1


class Rng:
    def __init__(self, seed):
        self.x = seed & MASK

    def next(self):
        self.x = (self.x + 0x9E3779B97F4A7C15) & MASK
        z = self.x
        z = ((z ^ (z >> 30)) * 0xBF58476D1CE4E5B9) & MASK
        z = ((z ^ (z >> 27)) * 0x94D049BB133111EB) & MASK
        return z ^ (z >> 31)

    def below(self, n):
        return (self.next() >> 11) % max(n, 1)

    def shuffle(self, xs):
        for i in range(len(xs) - 1, 0, -1):
            j = self.below(i + 1)
            xs[i], xs[j] = xs[j], xs[i]


def build_host():
    shutil.copyfile("/repo/Cargo.lock", os.path.join(HOST, "Cargo.lock"))
    rc, out = sh(["cargo", "+nightly", "build", "--offline", "--target-dir", TARGET], cwd=HOST)
    if rc != 0:
        raise Harness("nightly build of the real proc-macro failed:\n" + out[-4000:])
    deps = os.path.join(TARGET, "debug", "deps")
    # the rlib cargo just produced for this tree: newest libderive_more-*.rlib
    rl = sorted((f for f in os.listdir(deps) if re.match(r"libderive_more-[0-9a-f]+\.rlib$", f)),
                key=lambda f: os.path.getmtime(os.path.join(deps, f)))
    if not rl:
        raise Harness("no libderive_more rlib under " + deps)
    return deps, os.path.join(deps, rl[-1])


def _is_item_key(k):
    return not isinstance(k, str)


def item_text(it, rend):
    """The item's tokens as written in this variant: the original text, or one of its alternative renderings
    (same tokens; other blanks, line breaks, comments)."""
    k = rend.get(it["id"], 0) if rend else 0
    alts = it.get("renderings") or []
    return alts[k - 1] if 0 < k <= len(alts) else it["item"]


def squeeze(text):
    """Module text with all white space outside string literals removed. rustc's pretty-printer lays out the
    user's own item (which is part of the printed module) following the blanks and line breaks of the source,
    so layout is not derive_more's output; the *tokens* are, and string literals are kept byte for byte."""
    out = []
    i, n = 0, len(text)
    while i < n:
        ch = text[i]
        if ch == '"':
            j = i + 1
            while j < n and text[j] != '"':
                j += 2 if text[j] == "\\" else 1
            out.append(text[i:j + 1])
            i = j + 1
        elif ch.isspace():
            i += 1
        else:
            out.append(ch)
            i += 1
    return "".join(out)


# type-position macros the generated items may use (sessim/src/workload.rs TYPE_MACRO_DEFS), defined before every module
TYPE_MACRO_DEFS = "pub struct A3Meters(pub u8); macro_rules! Arr { ($t:ty, $n:expr) => { [$t; $n] }; } macro_rules! Same { ($t:ty) => { $t }; } macro_rules! Pair { ($a:ty, $b:ty) => { ($a, $b) }; }"

MACRO_ITEMS = [
    # (derive, macro body with $name / $v from the call site and tokens of its own, invocation arguments)
    ("FromStr", "($name:ident { $($v:ident),* }) => { #[derive(derive_more::FromStr)] pub enum $name { $($v,)* Unknown } }", "Probe { Alpha, Beta, Gamma }"),
    ("IsVariant", "($name:ident { $($v:ident),* }) => { #[derive(derive_more::IsVariant)] pub enum $name { Other(u8), $($v,)* } }", "Probe { Alpha, Beta }"),
    ("Unwrap", "($name:ident { $($v:ident),* }) => { #[derive(derive_more::Unwrap)] pub enum $name { $($v(i32),)* Rest(u8, u8) } }", "Probe { Alpha, Beta }"),
    ("Debug", "($name:ident { $($f:ident),* }) => { #[derive(derive_more::Debug)] pub struct $name { own: u8, $($f: i32,)* tail: bool } }", "Probe { alpha, beta }"),
    ("TryInto", "($name:ident { $($v:ident),* }) => { #[derive(derive_more::TryInto)] pub enum $name { $($v(i32),)* Wide(i64), Text(String) } }", "Probe { Alpha, Beta }"),
    # tokens that exist only as tokens: `$crate` (a string round trip turns it into `$` `crate`)
    ("From", "($name:ident) => { #[derive(derive_more::From)] pub struct $name(pub $crate::A3Meters); }", "Probe"),
    ("Into", "($name:ident { $($f:ident),* }) => { #[derive(derive_more::Into)] pub struct $name { pub m: $crate::A3Meters, $(pub $f: u8,)* } }", "Probe { a }"),
    ("IsVariant", "($name:ident) => { #[derive(derive_more::IsVariant)] pub enum $name { Far($crate::A3Meters), Near } }", "Probe"),
]


def _is_item_key(k):
    return not isinstance(k, str)


def is_macro(it):
    return str(it.get("kind", "")).startswith("macro")


def item_text(it, rend):
    """The item's tokens as written in this variant: the original text, or one of its alternative renderings
    (same tokens; other blanks and line breaks)."""
    if is_macro(it):
        return "mk_%d!(%s);" % (it["id"], it["invoke"])
    k = rend.get(it["id"], 0) if rend else 0
    alts = it.get("renderings") or []
    return alts[k - 1] if 0 < k <= len(alts) else it["item"]


def crate_text(items, rend=None, macros_file=None, macro_pad=0, inc_prefix=None):
    """Returns (source text, [(file or None, first line, last line, item id)], text of the macros file or None,
    {include file: text}).
    Items of kind `macro` are produced by a `macro_rules!` that lives in a *second file*: their tokens mix
    spans of two files, whose line numbers the variant moves independently (`macro_pad` leading blank lines).
    Items listed in rend["include"] sit in files of their own and reach their module through `include!`.
    rend["style"] rewrites the surroundings without touching a token: CRLF line ends, tabs for the
    indentation, a byte-order mark."""
    rend = rend or {}
    style = rend.get("style", "")
    ind = "\t" if "tabs" in style else "    "
    # a leading comment of seeded length shifts every byte offset in the file
    L = ["#![allow(warnings)] " + TYPE_MACRO_DEFS + " //" + "x" * rend.get("file_pad", 0)]
    macs = [it for it in items if is_macro(it)]
    mtext = None
    if macs:
        L.append('#[macro_use] #[path = "%s"] mod macro_defs;' % macros_file)
        M = [""] * macro_pad
        for it in macs:
            M.append("macro_rules! mk_%d { %s }" % (it["id"], it["macro"]))
        mtext = "\n".join(M) + "\n"
    ranges = []
    incs = {}
    included = set(rend.get("include", ())) if inc_prefix else set()
    for it in items:
        first = len(L) + 1
        L.append("mod case_%d {" % it["id"])
        if it["id"] in included and not is_macro(it):
            f = "%s_%d.rs" % (inc_prefix, it["id"])
            body = ["//" + "y" * (it["id"] % 7)] * (it["id"] % 5) + ["#[derive(derive_more::%s)]" % it["derive"]] + item_text(it, rend).split("\n")
            incs[f] = "\n".join(body) + "\n"
            L.append('%sinclude!("%s");' % (ind, f))
            ranges.append((f, 1, len(body) + 1, it["id"]))
        else:
            if not is_macro(it):
                L.append(ind + "#[derive(derive_more::%s)]" % it["derive"])
            L.extend((ind + item_text(it, rend)).split("\n"))
        L.append("}")
        ranges.append((None, first, len(L), it["id"]))
    nl = "\r\n" if "crlf" in style else "\n"
    text = nl.join(L) + nl
    if "crlf" in style:
        incs = {f: t.replace("\n", "\r\n") for f, t in incs.items()}
        if mtext is not None:
            mtext = mtext.replace("\n", "\r\n")
    if "bom" in style:
        text = "\ufeff" + text
    return text, ranges, mtext, incs


def run_rustc(tag, items, entropy, junk, deps, rlib, rend=None):
    os.makedirs(WORK, exist_ok=True)
    src = os.path.join(WORK, "case_%s.rs" % tag)
    mfile = os.path.join(WORK, "macros_%s.rs" % tag)
    pad = (rend or {}).get("macro_pad", 0)
    text, ranges, mtext, incs = crate_text(items, rend, mfile, pad, os.path.join(WORK, "inc_%s" % tag))
    open(src, "w", newline="").write(text)
    if mtext is not None:
        open(mfile, "w", newline="").write(mtext)
    for f, t in incs.items():
        open(f, "w", newline="").write(t)
    env = {"PATH": os.environ.get("PATH", "/usr/bin:/bin"), "HOME": os.environ.get("HOME", "/root"),
           "LD_PRELOAD": SHIM, "VERIF_ENTROPY_SEED": str(entropy),
           "RUSTC_ICE": "0"}   # nightly rustc would otherwise drop rustc-ice-*.txt into the cwd when a changed tree makes it ICE
    for k in ("RUSTUP_HOME", "CARGO_HOME", "RUSTUP_TOOLCHAIN"):
        if k in os.environ:
            env[k] = os.environ[k]
    env.update(junk)
    cmd = ["setarch", platform.machine(), "-R", "rustc", "+nightly", "--edition", (rend or {}).get("edition", "2021"), "-Zunpretty=expanded", "--error-format=json", "--crate-type", "lib",
           "--crate-name", (rend or {}).get("crate_name", "a3case"), "-L", "dependency=" + deps, "--extern", "derive_more=" + rlib, src]
    p = subprocess.run(cmd, env=env, stdout=subprocess.PIPE, stderr=subprocess.PIPE, text=True)
    out = p.stdout
    mods = {}
    cur, buf = None, []
    for line in out.split("\n"):
        m = re.match(r"^mod case_(\d+) \{", line)
        if m:
            cur, buf = int(m.group(1)), [line]
            if line.rstrip().endswith("}"):   # `mod case_3 { }` on one line
                mods[cur] = line
                cur = None
            continue
        if cur is not None:
            # blank lines are dropped: rustc's pretty-printer keeps the user's own blank lines inside the
            # printed *item*, which is not derive_more's output
            if line.strip() or line == "}":
                buf.append(line)
            if line == "}":
                mods[cur] = "\n".join(buf)
                cur = None
    # what the user sees of an expansion is its tokens *and* its diagnostics: rustc's errors are attributed
    # to the module whose lines their primary span falls in (by file and line, see crate_text) and
    # appended to that module's text, so that a diagnostic that changes with history is a divergence too
    panics = diags = 0
    per_mod = {}
    for line in p.stderr.split("\n"):
        if not line.startswith("{"):
            continue
        try:
            d = json.loads(line)
        except ValueError:
            continue
        if d.get("level") != "error":
            continue
        msg = d.get("message", "")
        if msg.startswith("aborting due to"):
            continue
        if "proc-macro derive panicked" in msg:
            panics += 1
        else:
            diags += 1
        spans = [sp for sp in d.get("spans", []) if sp.get("is_primary")] or d.get("spans", [])
        if not spans:
            continue
        sp = spans[0]
        # only diagnostics that can be the derive's output: errors without an error code (what `compile_error!`
        # produces; its tokens carry the input's spans, so rustc shows no expansion for them) and derive panics.
        # Coded errors (E0412 ..) come from later phases and may be suppressed by other errors; children and
        # suggestions are dropped because rustc legitimately mentions neighbouring items there.
        is_panic = "proc-macro derive panicked" in msg
        if d.get("code") is not None and not is_panic:
            continue
        ln = sp.get("line_start", 0)
        fn = sp.get("file_name", "")
        in_inc = [f for f in incs if os.path.basename(f) == os.path.basename(fn)]
        owner = [i for (f, a, b, i) in ranges if a <= ln <= b and ((f is None and not in_inc) or (f is not None and f in in_inc))]
        if owner:
            # of a panic only the fact is observed (the statement is about token sequences)
            per_mod.setdefault(owner[0], []).append("derive panicked" if is_panic else "error: %s" % msg)
    raw = dict(mods)
    mods = {i: squeeze(t) for i, t in mods.items()}
    for i, ds in per_mod.items():
        if i in mods:
            mods[i] += "\n// diagnostics: " + " | ".join(sorted(ds))
            raw[i] += "\n// diagnostics: " + " | ".join(sorted(ds))
    run_rustc.last_raw = raw
    for f in [src, mfile] + list(incs):
        try:
            os.remove(f)
        except OSError:
            pass
    return mods, panics, diags, p.returncode, p.stderr


def pick_items(keys, rng, n_harvest):
    items = []
    for f in keys["families"]:
        items.append({"derive": f["derive"], "item": f["item"], "renderings": f.get("renderings", []), "kind": "family:" + f["family"]})
    for f in keys["faults"]:
        items.append({"derive": f["derive"], "item": f["item"], "renderings": f.get("renderings", []), "kind": "fault"})
    hv = list(keys["harvested"])
    rng.shuffle(hv)
    for h in hv[:n_harvest]:
        items.append({"derive": h["derive"], "item": h["item"], "renderings": h.get("renderings", []), "kind": "harvested"})
    for d, body, inv in MACRO_ITEMS:
        items.append({"derive": d, "item": "macro_rules! mk { %s }  mk!(%s);" % (body, inv), "macro": body, "invoke": inv, "renderings": [], "kind": "macro"})
    # every macro-produced item twice: the second invocation hands the derive a token-identical input
    items += [dict(it, kind="macro-repeat") for it in items if it["kind"] == "macro"]
    # every fault item twice (separate modules): whatever an expansion leaves behind when it fails
    # meets the very same failure again
    items += [dict(it, kind="fault-repeat") for it in items if it["kind"] == "fault"]
    for i, it in enumerate(items):
        it["id"] = i
    return items


def variant_plan(rng, items, v, env_names=()):
    order = list(items)
    rng.shuffle(order)
    # neighbour set: drop a seeded share of the items
    keep_pct = [100, 100, 75, 50, 25][rng.below(5)]
    order = [it for it in order if rng.below(100) < keep_pct] or order[:1]
    entropy = 0 if rng.below(6) == 0 else rng.next()
    junk = {}
    if rng.below(2):
        junk["VERIF_PAD"] = "x" * [1, 64, 333, 4096, 20000][rng.below(5)]
    if rng.below(2):
        junk["SOURCE_DATE_EPOCH"] = str(rng.below(2000000000))
    if rng.below(2):
        junk["CARGO_PKG_NAME"] = "crate_%d" % rng.below(1000)
    for n in env_names:  # variables the expanders were seen reading (discovered by layer A1)
        if rng.below(3):
            junk[n] = ["", "1", "0", "true", "v%d" % rng.below(1000)][rng.below(5)]
    # the same tokens written differently (spans, source text behind the spans, line numbers all move)
    rend = {}
    if rng.below(3):
        for it in order:
            if it.get("renderings") and rng.below(2):
                rend[it["id"]] = 1 + rng.below(len(it["renderings"]))
    if rng.below(2):
        rend["macro_pad"] = [1, 7, 40, 300, 2000][rng.below(5)]
    if rng.below(2):
        rend["file_pad"] = [1, 9, 40, 75, 700, 900, 9000, 99000][rng.below(8)]
    # surroundings no token of which belongs to the item: line ends, indentation characters, a byte-order mark,
    # the crate's name and edition, items reached through include! from files of their own
    if rng.below(3) == 0:
        rend["style"] = ["crlf", "tabs", "bom", "crlf+tabs+bom"][rng.below(4)]
    if rng.below(3) == 0:
        rend["crate_name"] = ["x", "derive_more_user", "a3case_with_a_rather_long_crate_name_%d" % rng.below(100), "Ünïcrate"][rng.below(3)]
    if rng.below(3) == 0:
        rend["edition"] = ["2018", "2024"][rng.below(2)]
    if rng.below(3) == 0:
        rend["include"] = [it["id"] for it in order if not is_macro(it) and rng.below(2)]
    return {"v": v, "order": [it["id"] for it in order], "entropy": entropy, "junk": junk, "rend": rend}


def run(tier, seed, sessim_bin, env_names=()):
    deps, rlib = build_host()
    per_family, n_harvest, n_variants = (4, 40, 32) if tier == "quick" else (10, 300, 160)
    rc, out = sh([sessim_bin, "emit-keys", "--seed", str(seed), "--per-family", str(per_family), "--repo", "/repo"])
    if rc != 0:
        raise Harness("emit-keys failed:\n" + out[-2000:])
    keys = json.loads(out)
    rng = Rng(seed * 1000003 + 0xA3)
    items = pick_items(keys, rng, n_harvest)
    by_id = {it["id"]: it for it in items}
    t0 = time.time()
    # reference model: each item expanded alone by a pristine rustc process with entropy seed 0
    def ref_one(it):
        mods, panics, diags, _, _ = run_rustc("ref%d" % it["id"], [it], 0, {}, deps, rlib)
        return it["id"], mods.get(it["id"]), panics, diags

    ref, ref_panics, ref_diags = {}, 0, 0
    with cf.ThreadPoolExecutor(max_workers=16) as ex:
        for i, text, panics, diags in ex.map(ref_one, items):
            ref[i] = text
            ref_panics += panics
            ref_diags += diags
    missing = [i for i in ref if ref[i] is None]
    if missing:
        raise Harness("A3: no expanded module for items %s" % missing[:5])
    # the simulator must be deterministic first: the same whole-crate run twice
    w1, _, _, _, _ = run_rustc("w1", items, 7, {}, deps, rlib)
    w2, _, _, _, _ = run_rustc("w2", items, 7, {}, deps, rlib)
    if w1 != w2:
        raise Harness("A3: two identical rustc runs gave different expanded text (simulator not deterministic)")
    plans = [variant_plan(rng, items, v, env_names) for v in range(n_variants)]

    def do(plan):
        its = [by_id[i] for i in plan["order"]]
        mods, panics, diags, _, _ = run_rustc("v%d" % plan["v"], its, plan["entropy"], plan["junk"], deps, rlib, plan["rend"])
        verdicts = {i: differs(mods.get(i), ref[i], by_id[i]) for i in plan["order"]}
        bad = [i for i in plan["order"] if verdicts[i] == "differs"]
        kf = [(i, mods.get(i)) for i in plan["order"] if verdicts[i] == "kf5"]
        return plan, mods, panics, diags, bad, kf

    res = {"layer": "A3_real_rustc", "items": len(items), "variants": n_variants,
           "variants_by_surrounding": {k: sum(1 for p in plans if k in p["rend"]) for k in SURROUND}, "rustc_runs": 2 + len(items), "module_comparisons": 0,
           "panics_seen_by_rustc": ref_panics, "diagnostics_seen_by_rustc": ref_diags, "distinct_entropy_seeds": len({p["entropy"] for p in plans}),
           "known_finding_matches": 0, "known_finding_sample": None,
           "violations": [], "sample_variant": {k: plans[0][k] for k in ("order", "entropy")} if plans else None}
    divergent = []
    with cf.ThreadPoolExecutor(max_workers=16) as ex:
        for plan, mods, panics, diags, bad, kf in ex.map(do, plans):
            for i, obs in kf:
                res["known_finding_matches"] += 1
                if res["known_finding_sample"] is None:
                    el, ol = [m[1] for m in _KF5_RE.findall(ref[i])], [m[1] for m in _KF5_RE.findall(obs)]
                    d = [(a, b) for a, b in zip(el, ol) if a != b][:1]
                    res["known_finding_sample"] = {"id": KF5, "item": dict(by_id[i], renderings=[item_text(by_id[i], plan["rend"])]),
                                                   "expected_literals": [x[0] for x in d], "observed_literals": [x[1] for x in d]}
            res["rustc_runs"] += 1
            res["module_comparisons"] += len(plan["order"])
            res["panics_seen_by_rustc"] += panics
            res["diagnostics_seen_by_rustc"] += diags
            if bad:
                divergent.append((plan, bad[0], mods.get(bad[0])))
    # position sweep: every generated item alone, at many byte offsets in its file (a leading comment of
    # growing length): whatever reads span positions — and compares or formats them — meets the digit-count
    # boundaries (…99|100…, …999|1000…) here
    # (pads are chosen from the offset at which a lone item's module starts — the first line holds the type-macro
    # definitions — so that the module start runs from ~840 to ~1040 in quick, i.e. the item's tokens straddle 1000)
    sweep_items = [it for it in items if it["kind"].startswith("family:")]
    base0 = crate_text(sweep_items[:1] or items[:1], {"file_pad": 0})[0].index("mod case_")
    if tier == "quick":
        pads = list(range(0, 100, 20)) + [p for p in range(840 - base0, 1040 - base0, 8) if p >= 0]
    else:
        pads = list(range(0, 1300, 4)) + [p for p in range(9700 - base0, 10040 - base0, 12) if p >= 0]

    def sweep_one(job):
        it, pad = job
        mods, _, _, _, _ = run_rustc("s%d_%d" % (it["id"], pad), [it], 0, {}, deps, rlib, {"file_pad": pad})
        return it, pad, mods.get(it["id"]) != ref[it["id"]]

    res["position_sweep_runs"] = 0
    sweep_bad = []
    with cf.ThreadPoolExecutor(max_workers=16) as ex:
        for it, pad, bad in ex.map(sweep_one, [(it, pad) for it in sweep_items for pad in pads]):
            res["position_sweep_runs"] += 1
            res["rustc_runs"] += 1
            res["module_comparisons"] += 1
            if bad:
                sweep_bad.append((it["id"], pad))
    sweep_bad.sort()
    for item_id, pad in sweep_bad[:1]:
        plan = {"v": 100000 + pad, "order": [item_id], "entropy": 0, "junk": {}, "rend": {"file_pad": pad}}
        divergent.append((plan, item_id, None))
    divergent.sort(key=lambda d: d[0]["v"])
    for plan, probe, observed in divergent[:2]:
        res["violations"].append(minimise(seed, plan, probe, by_id, ref, deps, rlib))
    res["run_s"] = time.time() - t0
    res["divergent_variants"] = len(divergent)
    return res


KF5 = "KF5-tryinto-type-name-keeps-source-spacing-of-macro-arguments"
_KF5_RE = re.compile(r'(TryIntoError::new\(value,"(?:[^"\\]|\\.)*",)("(?:[^"\\]|\\.)*")')


def kf5_norm(text):
    """Defect model of KF5: the type-name literal handed to `TryIntoError::new` with all blanks removed."""
    if text is None:
        return None
    return _KF5_RE.sub(lambda m: m.group(1) + re.sub(r"\s+", "", m.group(2)), text)


def differs(observed, expected, item):
    """'same' | 'kf5' (differs only as KF5's defect model says, on an item with a macro-typed field) | 'differs'"""
    if observed == expected:
        return "same"
    if observed is not None and expected is not None and "!" in item.get("item", "") and item.get("derive") == "TryInto" \
            and kf5_norm(observed) == kf5_norm(expected):
        return "kf5"
    return "differs"


SURROUND = ("macro_pad", "file_pad", "style", "crate_name", "edition", "include")


def diverges(order, probe, entropy, junk, by_id, ref, deps, rlib, tag="min", rend=None):
    mods, _, _, _, _ = run_rustc(tag, [by_id[i] for i in order], entropy, junk, deps, rlib, rend)
    return differs(mods.get(probe), ref[probe], by_id[probe]) == "differs", mods.get(probe)


def minimise(seed, plan, probe, by_id, ref, deps, rlib):
    order, entropy, junk = list(plan["order"]), plan["entropy"], dict(plan["junk"])
    rend = dict(plan.get("rend") or {})
    steps = 0
    bad, _ = diverges([probe], probe, entropy, junk, by_id, ref, deps, rlib, rend=rend)
    if bad:
        order = [probe]
        steps += 1
    else:
        others = [i for i in order if i != probe]
        pos = order.index(probe)
        chunk = max(len(others) // 2, 1)
        while others:
            progressed = False
            i = 0
            while i < len(others):
                cand = others[:i] + others[i + chunk:]
                # keep relative order; probe stays after the items that preceded it
                cand_order = [x for x in order if x == probe or x in cand]
                b, _ = diverges(cand_order, probe, entropy, junk, by_id, ref, deps, rlib, rend=rend)
                if b:
                    others = cand
                    order = cand_order
                    steps += 1
                    progressed = True
                else:
                    i += chunk
            if chunk == 1 and not progressed:
                break
            chunk = max(chunk // 2, 1)
    if junk:
        b, _ = diverges(order, probe, entropy, {}, by_id, ref, deps, rlib, rend=rend)
        if b:
            junk = {}
            steps += 1
    if entropy != 0:
        b, _ = diverges(order, probe, 0, junk, by_id, ref, deps, rlib, rend=rend)
        if b:
            entropy = 0
            steps += 1
    # simpler writing: drop the alternative renderings one at a time (the probe's last)
    if "include" in rend:
        rend["include"] = [i for i in rend["include"] if i in order]
        if probe in rend["include"] and len(rend["include"]) > 1:
            cand = dict(rend, include=[probe])
            b, _ = diverges(order, probe, entropy, junk, by_id, ref, deps, rlib, rend=cand)
            if b:
                rend = cand
                steps += 1
    for i in [x for x in list(rend) if x != probe and x not in SURROUND] + ([probe] if probe in rend else []) + [k for k in SURROUND if k in rend]:
        cand = {k: v for k, v in rend.items() if k != i}
        b, _ = diverges(order, probe, entropy, junk, by_id, ref, deps, rlib, rend=cand)
        if b:
            rend = cand
            steps += 1
    rend = {k: v for k, v in rend.items() if k in order or k in SURROUND}
    _, observed = diverges(order, probe, entropy, junk, by_id, ref, deps, rlib, rend=rend)
    it = by_id[probe]
    why = ("depends on surroundings that are no part of the item (%s)" % ", ".join("%s=%s" % (k, rend[k]) for k in ("style", "crate_name", "edition", "include") if k in rend)
           if len(order) == 1 and any(k in rend for k in ("style", "crate_name", "edition", "include")) else
           "depends on the byte offset of the item in its file (span positions)" if len(order) == 1 and rend.get("file_pad") and probe not in rend and "macro_pad" not in rend else
           "depends on where the `macro_rules!` that produces part of the item sits in its own file (line numbers of two files compared)" if len(order) == 1 and "macro_pad" in rend else
           "depends on how the item's tokens are written (blanks, line breaks, comments: span positions / source text)" if len(order) == 1 and probe in rend else
           "depends on the process's entropy (hash seeds)" if len(order) == 1 and entropy != 0 else
           "depends on the other items expanded in the same rustc process" if len(order) > 1 else "depends on the process environment")
    rp = {"property": "C19", "engine": "sessim", "layer": "A3-real-rustc", "seed": seed,
          "what": "derive(%s) on `%s`: expansion inside real rustc %s" % (it["derive"], it["item"][:120], why),
          "items": [by_id[i] for i in order], "probe": probe, "entropy_seed": entropy, "junk": junk, "rend": {str(k): v for k, v in rend.items()},
          "expected_text": ref[probe], "observed_text": observed, "minimise_steps": steps, "original_items": len(plan["order"])}
    path = os.path.join(REPLAYS, "C19-%d-a3-v%d.json" % (seed, plan["v"]))
    json.dump(rp, open(path, "w"), indent=1, ensure_ascii=False)
    return {"replay": path, "what": rp["what"], "items": len(order)}


def replay(path):
    rp = json.load(open(path))
    deps, rlib = build_host()
    if rp.get("kind") == "unlisted-known-finding":
        # the item as first written vs its other rendering; a violation while the finding is not listed as open
        it = rp["sample"]["item"]
        a, _, _, _, _ = run_rustc("rp_kf_a", [it], 0, {}, deps, rlib)
        b, _, _, _, _ = run_rustc("rp_kf_b", [it], 0, {}, deps, rlib, {it["id"]: 1})
        v = differs(b.get(it["id"]), a.get(it["id"]), it)
        listed = any(f["id"] == rp["sample"]["id"] for f in known_findings("C19"))
        print(json.dumps({"verdict": v, "listed_as_open": listed}))
        if v == "differs" or (v == "kf5" and not listed):
            print("VIOLATION property=C19 replay=%s" % path)
            return 1
        return 0
    by_id = {it["id"]: it for it in rp["items"]}
    probe = rp["probe"]
    alone, _, _, _, _ = run_rustc("rp_ref", [by_id[probe]], 0, {}, deps, rlib)
    rend = {(k if k in SURROUND else int(k)): v for k, v in (rp.get("rend") or {}).items()}
    mods, _, _, _, _ = run_rustc("rp_var", rp["items"], rp["entropy_seed"], rp.get("junk", {}), deps, rlib, rend)
    print(json.dumps({"probe": by_id[probe], "expected_text": alone.get(probe), "observed_text": mods.get(probe)}, indent=1, ensure_ascii=False))
    if differs(mods.get(probe), alone.get(probe), by_id[probe]) == "differs":
        print("VIOLATION property=C19 replay=%s" % path)
        return 1
    return 0


def replay_quiet(path):
    import io, contextlib
    with contextlib.redirect_stdout(io.StringIO()):
        return replay(path)
