"""Shared pieces of the check drivers."""
import json, os, subprocess, sys, time

VERIF = os.path.dirname(os.path.dirname(os.path.abspath(__file__)))
BUILD = os.path.join(VERIF, ".build")
REPLAYS = os.path.join(VERIF, "replays")
EVIDENCE = os.path.join(VERIF, "evidence")
KNOWN = os.path.join(VERIF, "known_findings.json")


def log(*a):
    print(*a, file=sys.stderr, flush=True)


def sh(cmd, cwd=None, env=None, timeout=None, capture=True):
    e = dict(os.environ)
    e["CARGO_NET_OFFLINE"] = "true"
    if env:
        e.update(env)
    p = subprocess.run(cmd, cwd=cwd, env=e, timeout=timeout, stdout=subprocess.PIPE if capture else None,
                       stderr=subprocess.STDOUT if capture else None, text=True)
    return p.returncode, (p.stdout or "")


def known_findings(prop):
    """Open findings recorded for `prop` (committed file, never written at run time)."""
    try:
        k = json.load(open(KNOWN))
    except FileNotFoundError:
        return []
    return [f for f in k.get("open", []) if f.get("property") == prop]


def write_evidence(prop, tier, seed, level, coverage, wall_s, violations, assumptions, extra=None):
    os.makedirs(EVIDENCE, exist_ok=True)
    ev = {
        "property_id": prop,
        "tier": tier,
        "seed": seed,
        "level": level,
        "coverage": coverage,
        "assumptions": assumptions,
        "wall_s": round(wall_s, 3),
        "violations": violations,
    }
    if extra:
        ev.update(extra)
    tmp = os.path.join(EVIDENCE, prop + ".json.tmp")
    json.dump(ev, open(tmp, "w"), indent=1, ensure_ascii=False)
    os.replace(tmp, os.path.join(EVIDENCE, prop + ".json"))


class Harness(Exception):
    pass
