"""Layer A2 of sessim (thorough only): a small session run entirely inside Miri. Miri owns entropy
(its getrandom), every address, and the thread schedule including preemption *inside* an expansion,
all under -Zmiri-seed; its data-race detector stays on. Every observation of a key — any seed, any
thread, any position, before or after a worker crash — must be identical."""
import json, os, re, time
from common import *

CRATE = os.path.join(VERIF, "sessim")
TARGET = os.path.join(BUILD, "sessim-miri")


def miri(seeds, wl_seed, items, preempt="0.05", timeout=3000, concurrent=0):
    lo, hi = seeds
    flags = "-Zmiri-many-seeds=%d..%d -Zmiri-many-seeds-keep-going -Zmiri-preemption-rate=%s" % (lo, hi, preempt)
    prog = ["miri-concurrent", "--seed", str(wl_seed), "--threads", str(concurrent)] if concurrent else ["miri-session", "--seed", str(wl_seed), "--items", str(items)]
    rc, out = sh(["cargo", "+nightly", "miri", "run", "--offline", "--"] + prog,
                 cwd=CRATE, env={"MIRIFLAGS": flags, "CARGO_TARGET_DIR": TARGET}, timeout=timeout)
    obs = {}
    n = 0
    for line in out.split("\n"):
        m = re.match(r"^OBS ([0-9a-f]{16}) (\w+) ([0-9a-f]{16}) w=(\d+) gen=(\d+)", line)
        if m:
            n += 1
            obs.setdefault(m.group(1), set()).add((m.group(2), m.group(3)))
    ub = "Undefined Behavior" in out or "data race" in out.lower()
    return rc, obs, n, ub, out


def run(seed):
    t0 = time.time()
    n_seeds, items = 16, 3
    rc, obs, n, ub, out = miri((0, n_seeds), seed, items)
    expected = n_seeds * (3 * items + 2)
    res = {"layer": "A2_miri_session", "miri_seeds": n_seeds, "items": items, "observations": n, "expected_observations": expected,
           "keys": len(obs), "undefined_behaviour_or_data_race_reported": ub, "violations": [], "run_s": None}
    if ub:
        raise Harness("Miri reported undefined behaviour / a data race in the session:\n" + out[-3000:])
    if n != expected:
        raise Harness("Miri layer produced %d of %d observations (rc=%d):\n%s" % (n, expected, rc, out[-3000:]))
    bad = {k: sorted(v) for k, v in obs.items() if len(v) > 1}
    if bad:
        # find two Miri seeds that disagree, for the replay file
        per_seed = {}
        for s in range(n_seeds):
            _, o, _, _, _ = miri((s, s + 1), seed, items)
            per_seed[s] = {k: sorted(v) for k, v in o.items()}
        path = os.path.join(REPLAYS, "C19-%d-a2.json" % seed)
        json.dump({"property": "C19", "engine": "sessim", "layer": "A2-miri", "seed": seed, "items": items, "miri_seeds": [0, n_seeds],
                   "what": "observations of one key differ between Miri seeds / threads: %s" % json.dumps(bad)[:600],
                   "per_seed": per_seed,
                   "command": "cd /verif/sessim && MIRIFLAGS='-Zmiri-many-seeds=0..%d -Zmiri-many-seeds-keep-going -Zmiri-preemption-rate=0.05' cargo +nightly miri run --offline -- miri-session --seed %d --items %d" % (n_seeds, seed, items)},
                  open(path, "w"), indent=1)
        res["violations"].append({"replay": path, "what": "expansion text depends on Miri's seed (entropy / addresses / thread schedule)"})
    if not bad:
        # second phase: THREADS threads expanding the same small items at the same time, Miri's seeded scheduler
        # deciding every interleaving (sessim/src/session.rs run_concurrent): a lockstep pass (barrier before every
        # item), a free-running pass, then one thread alone
        threads, conc_seeds = 3, 14
        rc, obs2, n2, ub2, out2 = miri((0, conc_seeds), seed, 0, preempt="0.9", timeout=6000, concurrent=threads)
        if ub2:
            raise Harness("Miri reported undefined behaviour / a data race in the concurrent phase:\n" + out2[-3000:])
        n_items = len(obs2)
        exp2 = conc_seeds * (threads * (n_items + (n_items + 2) // 3) + n_items)
        if n2 != exp2 or n_items == 0:
            raise Harness("Miri concurrent phase produced %d of %d observations (rc=%d):\n%s" % (n2, exp2, rc, out2[-3000:]))
        res["concurrent_phase"] = {"miri_seeds": conc_seeds, "threads": threads, "items": n_items, "observations": n2, "preemption_rate": 0.9,
                                   "passes": ["lockstep (barrier before every item)", "free running (own order per thread)", "one thread alone afterwards"]}
        res["observations"] += n2
        bad2 = {k: sorted(v) for k, v in obs2.items() if len(v) > 1}
        if bad2:
            path = os.path.join(REPLAYS, "C19-%d-a2-concurrent.json" % seed)
            json.dump({"property": "C19", "engine": "sessim", "layer": "A2-miri", "phase": "concurrent", "seed": seed, "threads": threads, "miri_seeds": [0, conc_seeds],
                       "what": "observations of one key differ when several threads expand at the same time (or afterwards): %s" % json.dumps(bad2)[:600],
                       "command": "cd /verif/sessim && MIRIFLAGS='-Zmiri-many-seeds=0..%d -Zmiri-many-seeds-keep-going -Zmiri-preemption-rate=0.9' cargo +nightly miri run --offline -- miri-concurrent --seed %d --threads %d" % (conc_seeds, seed, threads)},
                      open(path, "w"), indent=1)
            res["violations"].append({"replay": path, "what": "expansion text depends on what another thread expands at the same time (Miri-scheduled interleaving)"})
    res["run_s"] = time.time() - t0
    return res


def replay(path):
    rp = json.load(open(path))
    lo, hi = rp["miri_seeds"]
    if rp.get("phase") == "concurrent":
        rc, obs, n, ub, out = miri((lo, hi), rp["seed"], 0, preempt="0.9", timeout=6000, concurrent=rp["threads"])
    else:
        rc, obs, n, ub, out = miri((lo, hi), rp["seed"], rp["items"])
    bad = {k: sorted(v) for k, v in obs.items() if len(v) > 1}
    print(json.dumps({"observations": n, "divergent_keys": bad}, indent=1))
    if bad:
        print("VIOLATION property=C19 replay=%s" % path)
        return 1
    return 0
