#!/usr/bin/env python3
"""Applies each property-preserving change under seeded/benign to /repo, runs the property's quick check (must exit 0,
no VIOLATION line), undoes it, and records the outcome in seeded/benign/RESULTS.json."""
import glob, json, os, subprocess, sys
VERIF = os.path.dirname(os.path.dirname(os.path.abspath(__file__)))
res = {}
for d in sorted(glob.glob(os.path.join(VERIF, "seeded", "benign", "B*"))):
    bid = os.path.basename(d)
    if len(sys.argv) > 1 and bid not in sys.argv[1:]:
        continue
    meta = json.load(open(os.path.join(d, "meta.json")))
    assert subprocess.run(["git", "-C", "/repo", "diff", "--quiet"]).returncode == 0, "/repo is dirty"
    subprocess.run(["git", "-C", "/repo", "apply", os.path.join(d, "patch.diff")], check=True)
    try:
        p = subprocess.run(["./check", meta["property"], "--tier", "quick"], cwd=VERIF, capture_output=True, text=True)
    finally:
        subprocess.run(["git", "-C", "/repo", "checkout", "--", "."], check=True)
        subprocess.run(["git", "-C", "/repo", "clean", "-fdq", "--", "impl", "src", "tests"], check=True)
    alarms = [l for l in p.stdout.split("\n") if l.startswith("VIOLATION")]
    res[bid] = {"property": meta["property"], "rc": p.returncode, "violation_lines": len(alarms), "quiet": p.returncode == 0 and not alarms}
    print(bid, meta["property"], "rc=%d" % p.returncode, "quiet" if res[bid]["quiet"] else "FALSE ALARM / ERROR: " + (alarms[0] if alarms else p.stderr[-300:]))
    sys.stdout.flush()
for f in glob.glob(os.path.join(VERIF, "replays", "*.json")):
    os.remove(f)
old = {}
try:
    old = json.load(open(os.path.join(VERIF, "seeded", "benign", "RESULTS.json")))
except Exception:
    pass
old.update(res)
json.dump(old, open(os.path.join(VERIF, "seeded", "benign", "RESULTS.json"), "w"), indent=1)
