#!/bin/sh
# usage: try_mutation.sh <check-id> <file> <python-replace-expr-old> <new>   (applies in /repo, runs quick check, reverts)
id=$1; file=$2; old=$3; new=$4
python3 - "$file" "$old" "$new" <<'PY'
import sys
p,old,new=sys.argv[1:4]
s=open(p).read()
assert s.count(old)>=1, "pattern not found"
open(p,'w').write(s.replace(old,new,1))
PY
[ $? -eq 0 ] || exit 9
cd /verif && ./check $id --tier quick 2>&1 | cut -c1-400 | tail -5; echo "exit=$?"
git -C /repo checkout -- .
