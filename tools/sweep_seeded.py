#!/usr/bin/env python3
"""Runs the registered quick check of each seeded change's property with the change applied to /repo
(git apply; undone straight afterwards) and records what was reported in seeded/RESULTS.json."""
import glob, json, os, subprocess, sys, time

VERIF = os.path.dirname(os.path.dirname(os.path.abspath(__file__)))
only = set(sys.argv[1:])
res = {}
try:
    res = json.load(open(os.path.join(VERIF, "seeded", "RESULTS.json")))
except Exception:
    pass
for d in sorted(glob.glob(os.path.join(VERIF, "seeded", "S*"))):
    sid = os.path.basename(d)
    if only and sid not in only:
        continue
    meta = json.load(open(os.path.join(d, "meta.json")))
    assert subprocess.run(["git", "-C", "/repo", "diff", "--quiet"]).returncode == 0, "/repo is dirty"
    for f in glob.glob(os.path.join(VERIF, "replays", "*.json")):
        os.remove(f)
    subprocess.run(["git", "-C", "/repo", "apply", os.path.join(d, "patch.diff")], check=True)
    t0 = time.time()
    try:
        tier = meta.get("tier", "quick")   # a change that only the thorough tier reports says so in its meta.json
        if tier != "quick" and os.environ.get("SWEEP_SKIP_THOROUGH"):
            print(sid, "skipped (needs the thorough tier)")
            continue
        p = subprocess.run(["./check", meta["property"], "--tier", tier], cwd=VERIF, capture_output=True, text=True)
    finally:
        subprocess.run(["git", "-C", "/repo", "checkout", "--", "."], check=True)
        subprocess.run(["git", "-C", "/repo", "clean", "-fdq", "--", "impl", "src", "tests"], check=True)
    viol = [l for l in p.stdout.split("\n") if l.startswith("VIOLATION")]
    whats = []
    for l in viol[:2]:
        path = l.split("replay=")[1]
        try:
            r = json.load(open(path))
            whats.append({"replay": os.path.basename(path), "layer": r.get("layer", r.get("engine")), "what": r.get("what"),
                          "requests_or_items": len(r["sched"]["requests"]) if "sched" in r else (len(r["items"]) if "items" in r else None)})
        except Exception as e:
            whats.append({"replay": path, "error": str(e)})
    res[sid] = {"property": meta["property"], "check": "./check %s --tier %s" % (meta["property"], tier), "rc": p.returncode, "detected": p.returncode == 1,
                "violation_lines": len(viol), "first_reports": whats, "wall_s": round(time.time() - t0, 1)}
    print(sid, meta["property"], "rc=%d" % p.returncode, "detected" if p.returncode == 1 else "MISSED", whats[0]["what"][:110] if whats and "what" in whats[0] else p.stderr[-300:])
    sys.stdout.flush()
    json.dump(res, open(os.path.join(VERIF, "seeded", "RESULTS.json"), "w"), indent=1, ensure_ascii=False)   # after every item
for f in glob.glob(os.path.join(VERIF, "replays", "*.json")):
    os.remove(f)
json.dump(res, open(os.path.join(VERIF, "seeded", "RESULTS.json"), "w"), indent=1, ensure_ascii=False)
