#!/bin/sh
# usage: confirm_seed.sh <agent> <i>   e.g. confirm_seed.sh c06_a 1
# In the agent's scratch worktree: apply patch -> suite (must equal baseline: 1 failing = compile_fail only) -> demo must FAIL;
# revert -> demo must PASS. Prints one summary line.
a=$1; i=$2
WT=/tmp/wt_$a; D=/tmp/seeded_out/$a/change_$i
export CARGO_NET_OFFLINE=true
cd $WT || exit 9
git checkout -q -- . ; git clean -fdq -e target
git apply $D/patch.diff || { echo "CONFIRM $a/$i: patch does not apply"; exit 9; }
suite=$(cargo test --workspace --no-fail-fast --offline 2>&1 | grep -E "^test result|^test .* FAILED" | awk '/^test result/{p+=$4; f+=$6} /FAILED/{n=n" "$2} END{print "passed="p" failed="f" failing:"n}')
demo() {
  case $a in
    r3_c06_a) (cd $D/demo && cargo run --offline -q --target-dir /tmp/r3_c06_a_demo_target >/dev/null 2>&1; echo $?) ;;
    c06_a|c06_c|r2_c06_a|r3_c06_b) (cd $D/demo && cargo run --offline -q >/dev/null 2>&1; echo $?) ;;
    r2_c06_b) (cd $D/demo && CARGO_TARGET_DIR=/tmp/seeded_out/r2_c06_b/demo_target cargo test --offline -q >/dev/null 2>&1; echo $?) ;;
    r5_c06_a) (cd $D/demo && CARGO_TARGET_DIR=/tmp/wt_$a/target/demo cargo run --offline -q >/dev/null 2>&1; echo $?) ;;
    r5_c06_b) (cd $D/demo && CARGO_TARGET_DIR=/tmp/wt_$a/target/demo cargo test --offline >/dev/null 2>&1; echo $?) ;;
    r6_c06_a) (cd $D/demo && CARGO_TARGET_DIR=/tmp/r6_c06_a_demo_target cargo run --offline -q >/dev/null 2>&1; echo $?) ;;
    r6_c06_b) (cd $D && ./run_demo.sh >/dev/null 2>&1; echo $?) ;;
    r6_c19_*) (sh $D/demo/run.sh >/dev/null 2>&1; echo $?) ;;
    r7_c06_a) (cd $D/demo && CARGO_TARGET_DIR=/tmp/wt_$a/target/demo$i cargo test --offline --no-fail-fast >/dev/null 2>&1; echo $?) ;;
    r7_c19_*) (bash $D/demo/run.sh >/dev/null 2>&1; echo $?) ;;
    r8_c06_a) (sh $D/demo/run.sh >/dev/null 2>&1; echo $?) ;;
    r8_c06_b) (cd $D/demo && CARGO_TARGET_DIR=/tmp/wt_$a/target/demo cargo run --offline -q >/dev/null 2>&1; echo $?) ;;
    r8_c19_a) (bash $D/demo/run.sh >/dev/null 2>&1; echo $?) ;;
    r8_c19_b) (if [ -f $D/demo/run.sh ]; then sh $D/demo/run.sh; else cd $D/demo && cargo test --offline --target-dir /tmp/wt_$a/target/demo_c$i; fi >/dev/null 2>&1; echo $?) ;;
    r9_c06_a) (sh $D/run.sh >/dev/null 2>&1; echo $?) ;;
    r9_c06_b) (cd $D/demo && CARGO_TARGET_DIR=/tmp/seeded_out/r9_c06_b/demo_target cargo run --offline -q >/dev/null 2>&1; echo $?) ;;
    r9_c19_a) (bash $D/demo/run.sh >/dev/null 2>&1; echo $?) ;;
    r9_c19_b) (bash $D/demo/run.sh 2>&1 | grep -qE "DEMO FAILED|DIFFERENT|same variable: False|^error"; [ $? = 0 ] && echo 1 || echo 0) ;;
    r10_c06_*) (cd $D/demo && CARGO_TARGET_DIR=/tmp/wt_$a/target/demo cargo run --offline -q >/dev/null 2>&1; echo $?) ;;
    r10_c19_*) (bash $D/demo/run.sh >/dev/null 2>&1; echo $?) ;;
    r12_*) (cd $D && bash ./run_demo.sh >/dev/null 2>&1; echo $?) ;;
    r11_c06_*) (cd $D/demo && CARGO_TARGET_DIR=/tmp/wt_$a/target/demo cargo run --offline -q >/dev/null 2>&1; echo $?) ;;
    r11_c19_a) (cd $D/demo && bash ./run.sh >/dev/null 2>&1; echo $?) ;;
    r11_c19_b) (cd $D && bash ./run_demo.sh >/dev/null 2>&1; echo $?) ;;
    r4_c06_*) (cd $D/demo && CARGO_TARGET_DIR=/tmp/wt_$a/target/demo cargo run --offline -q >/dev/null 2>&1; echo $?) ;;
    r4_c19_b) (sh $D/run_demo.sh >/dev/null 2>&1; echo $?) ;;
    r5_c19_a) ($D/demo/run.sh >/dev/null 2>&1; echo $?) ;;
    r2_c19_*|r3_c19_*|r4_c19_a|r5_c19_b) (sh $D/demo/run.sh >/dev/null 2>&1; echo $?) ;;
    c06_b) (cd $D/demo && CARGO_TARGET_DIR=/tmp/seeded_out/c06_b/target cargo test --offline -q -- --test-threads=1 >/dev/null 2>&1; echo $?) ;;
    c19_*) ($D/demo/run.sh >/dev/null 2>&1; echo $?) ;;
  esac
}
with=$(demo)
git checkout -q -- . ; git clean -fdq -e target
without=$(demo)
echo "CONFIRM $a/$i: suite[$suite] demo_with_change_rc=$with demo_without_change_rc=$without"
