#!/bin/sh
# usage: run_seed.sh <patch.diff> <C06|C19> [tier]  — applies the patch to /repo, runs the check, reverts. Prints result line.
patch=$1; id=$2; tier=${3:-quick}
cd /repo || exit 9
git diff --quiet || { echo "repo dirty"; exit 9; }
git apply "$patch" || { echo "patch does not apply"; exit 9; }
cd /verif
out=$(./check $id --tier $tier 2>&1); rc=$?
git -C /repo checkout -- . ; git -C /repo clean -fdq -- impl src tests 2>/dev/null
echo "$out" | grep -E "^VIOLATION|HARNESS|^C[0-9]+ " | cut -c1-300
echo "RESULT patch=$patch check=$id rc=$rc"
exit $rc
